#!/bin/sh
# check.sh <ID> [--tier quick|thorough] [--replay file]
# Rebuilds the explorer from /repo's CURRENT working tree (hooks injected through a
# build overlay, guard tag `verif`) and runs it.  Exit: 0 held / 1 VIOLATION / 2 check broken.
V=$(dirname "$(readlink -f "$0")")
export GOFLAGS=-mod=mod GOPROXY=off GOSUMDB=off GOTOOLCHAIN=local
export CARGO_NET_OFFLINE=true PIP_NO_INDEX=1
REPO=${VERIF_REPO:-/repo}   # the tree under test (default /repo; a scratch worktree for seeded-change runs)
export VERIF_REPO="$REPO"
ID="$1"
[ -n "$ID" ] || { echo "usage: check.sh <ID> [--tier quick|thorough] [--replay file]" >&2; exit 2; }
W=$V/.work/$$
mkdir -p "$W" || exit 2
trap 'rm -rf "$W"' EXIT INT TERM

# hooks overlay: every hooks/<pkg>_zz_verif.go becomes /repo/<pkg>/zz_verif.go
hooks_entries() {
  sep=""
  for f in $V/hooks/*_zz_verif.go $V/hooks/*_zz_verifint$HOOKVAR.go; do
    [ -f "$f" ] || continue
    b=$(basename "$f" .go); pkg=${b%%_zz_*}; name=zz_${b#*_zz_}
    if [ "$pkg" = root ]; then dst=$REPO/$name.go; else dst=$REPO/$pkg/$name.go; fi
    printf '%s"%s":"%s"' "$sep" "$dst" "$f"
    sep=","
  done
}
HOOKVAR=""
{ printf '{"Replace":{'; hooks_entries; printf '}}\n'; } > "$W/overlay.json" || exit 2
OVERLAY="$W/overlay.json"
TAGS=verif

cd $V/harness || exit 2
MODFLAG=""
if [ "$REPO" != /repo ]; then
  sed "s|=> /repo|=> $REPO|" go.mod > "$W/go.mod"; [ -f go.sum ] && cp go.sum "$W/go.sum"
  MODFLAG="-modfile=$W/go.mod"
fi
# the seams into private functions (hooks/*_zz_verifint.go) are optional: if they do not compile against
# the current sources (a private function was renamed or re-shaped) their stubs are used instead and
# the harnesses that need them are reported as not done; everything else runs as usual
if ! go build $MODFLAG -tags verif -overlay "$W/overlay.json" github.com/boombuler/barcode/qr 2> "$W/probe.err"; then
  HOOKVAR="_stub"
  { printf '{"Replace":{'; hooks_entries; printf '}}\n'; } > "$W/overlay.json" || exit 2
  echo "note: hooks/qr_zz_verifint.go does not compile against the current sources; building with its stub" >&2
fi
if [ "$ID" = C16 ]; then
  # engine S: mechanically rewritten copies of the current /repo sources
  [ -x $V/bin/instrument ] || go build -o $V/bin/instrument ./cmd/instrument || { echo "CHECK-BROKEN: cannot build the instrumenter" >&2; exit 2; }
  mkdir -p "$W/inst"
  if ! $V/bin/instrument -repo "$REPO" -out "$W/inst" > "$W/inst.map" 2> "$W/inst.err"; then
    cat "$W/inst.err" >&2
    echo "CHECK-BROKEN: instrumenter failed on the current /repo sources" >&2
    exit 2
  fi
  {
    printf '{"Replace":{'; hooks_entries
    while read -r src dst; do printf ',"%s":"%s"' "$src" "$dst"; done < "$W/inst.map"
    printf '}}\n'
  } > "$W/overlay_s.json"
  # free-running pass: un-instrumented sources under the race detector
  if ! go build $MODFLAG -race -tags verif -overlay "$W/overlay.json" -o "$W/racepass" ./cmd/racepass 2> "$W/build.err"; then
    cat "$W/build.err" >&2
    echo "CHECK-BROKEN: build of the race pass against /repo failed" >&2
    exit 2
  fi
  export VERIF_RACEBIN="$W/racepass"
  # baselines of the free-running pass: every operation once, sequentially, GOMAXPROCS=1, own process
  for m in mixed qr rs same qrall color sharedsrc; do
    ( s=$(date +%s); GOMAXPROCS=1 timeout 120 "$W/racepass" -mode $m -write-baseline "$W/racebase.$m.json" > "$W/racebase.$m.log" 2>&1 && echo $(( $(date +%s) - s )) > "$W/racebase.$m.time" ) &
  done
  wait
  export VERIF_RACEBASE="$W"
  OVERLAY="$W/overlay_s.json"
  TAGS="verif verifsched"
fi
if ! go build $MODFLAG -tags "$TAGS" -overlay "$OVERLAY" -o "$W/explorer" ./cmd/explorer 2> "$W/build.err"; then
  cat "$W/build.err" >&2
  echo "CHECK-BROKEN: build of the explorer against /repo failed" >&2
  exit 2
fi
VERIF_DIR="${VERIF_OUT:-$V}" VERIF_WORK="$W" "$W/explorer" "$@"
