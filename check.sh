#!/bin/sh
# check.sh <ID> [--tier quick|thorough] [--replay file]
# Rebuilds the explorer from /repo's CURRENT working tree (hooks injected through a
# build overlay, guard tag `verif`) and runs it.  Exit: 0 held / 1 VIOLATION / 2 check broken.
V=/verif
export GOFLAGS=-mod=mod GOPROXY=off GOSUMDB=off GOTOOLCHAIN=local
export CARGO_NET_OFFLINE=true PIP_NO_INDEX=1
ID="$1"
[ -n "$ID" ] || { echo "usage: check.sh <ID> [--tier quick|thorough] [--replay file]" >&2; exit 2; }
W=$V/.work/$$
mkdir -p "$W" || exit 2
trap 'rm -rf "$W"' EXIT INT TERM

# overlay: every hooks/<pkg>_zz_verif.go becomes /repo/<pkg>/zz_verif.go
{
  printf '{"Replace":{'
  sep=""
  for f in $V/hooks/*_zz_verif.go; do
    pkg=$(basename "$f" _zz_verif.go)
    if [ "$pkg" = root ]; then dst=/repo/zz_verif.go; else dst=/repo/$pkg/zz_verif.go; fi
    printf '%s"%s":"%s"' "$sep" "$dst" "$f"
    sep=","
  done
  if [ "$ID" = C16 ]; then
    # engine S: mechanically rewritten copies of the current /repo sources
    mkdir -p "$W/inst"
    if ! $V/bin/instrument -repo /repo -out "$W/inst" > "$W/inst.map" 2> "$W/inst.err"; then
      cat "$W/inst.err" >&2
      echo "CHECK-BROKEN: instrumenter failed on the current /repo sources" >&2
      exit 2
    fi
    while read -r src dst; do
      printf '%s"%s":"%s"' "$sep" "$src" "$dst"
    done < "$W/inst.map"
  fi
  printf '}}\n'
} > "$W/overlay.json" || exit 2

TAGS=verif
[ "$ID" = C16 ] && TAGS="verif verifsched"
cd $V/harness || exit 2
if ! go build -tags "$TAGS" -overlay "$W/overlay.json" -o "$W/explorer" ./cmd/explorer 2> "$W/build.err"; then
  cat "$W/build.err" >&2
  echo "CHECK-BROKEN: build of the explorer against /repo failed" >&2
  exit 2
fi
VERIF_WORK="$W" VERIF_OVERLAY="$W/overlay.json" "$W/explorer" "$@"
