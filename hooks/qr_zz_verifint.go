//go:build verif

package qr

import (
	"github.com/boombuler/barcode/utils"

	vsched "verif/sched"
)

// VerifInternals reports that the seams below are bound to the package's private functions. If the
// private functions they call no longer exist in that form, check.sh builds with the stub file
// (zz_verifint_stub) instead and the S3a-c harnesses of C16 are reported as not done.
const VerifInternals = true

// ---- narrow seams for the schedule explorer (C16) ---------------------------------------

// VerifIterateModules drains iterateModules over a dim x dim matrix whose occupied modules
// are given by occ, and returns the visited points as x*dim+y.
func VerifIterateModules(dim int, occ func(x, y int) bool) []int {
	o := newBarcode(dim)
	for x := 0; x < dim; x++ {
		for y := 0; y < dim; y++ {
			if occ(x, y) {
				o.Set(x, y, true)
			}
		}
	}
	var out []int
	ch := iterateModules(o)
	for { // the hook file is not rewritten by the instrumenter: use the shim directly
		p, ok := vsched.Recv2(ch)
		if !ok {
			break
		}
		out = append(out, p.X*dim+p.Y)
	}
	return out
}

// VerifV1Occupied reports the function-pattern modules of a version 1 symbol.
func VerifV1Occupied() (int, func(x, y int) bool) {
	vi := findSmallestVersionInfo(L, byteMode, 8)
	dim := vi.modulWidth()
	occupied := newBarcode(dim)
	setAll := func(x int, y int, val bool) { occupied.Set(x, y, true) }
	drawFinderPatterns(vi, setAll)
	drawAlignmentPatterns(occupied, vi, setAll)
	for i := 0; i < dim; i++ {
		occupied.Set(i, 6, true)
		occupied.Set(6, i, true)
	}
	occupied.Set(8, dim-8, true)
	drawVersionInfo(vi, setAll)
	drawFormatInfo(vi, -1, occupied.Set)
	return dim, occupied.Get
}

// VerifEncodeAlphaNumeric runs the alphanumeric mode encoder (goroutine + channel pipeline).
func VerifEncodeAlphaNumeric(content string, level ErrorCorrectionLevel) ([]byte, int, error) {
	bits, vi, err := encodeAlphaNumeric(content, level)
	if err != nil {
		return nil, 0, err
	}
	return bits.GetBytes(), int(vi.Version), nil
}

// VerifSplitToBlocks feeds n = total data bytes of (version, level) through IterateBytes and
// splitToBlocks and returns the interleaved codewords.
func VerifSplitToBlocks(version byte, level ErrorCorrectionLevel) []byte {
	for _, vi := range versionInfos {
		if vi.Version == version && vi.Level == level {
			bl := new(utils.BitList)
			for i := 0; i < vi.totalDataBytes(); i++ {
				bl.AddByte(byte(i*7 + 3))
			}
			return splitToBlocks(bl.IterateBytes(), vi).interleave(vi)
		}
	}
	return nil
}
