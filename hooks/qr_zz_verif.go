//go:build verif

package qr

import (
	"github.com/boombuler/barcode/utils"
)

// VerifReset re-creates the package-level Reed-Solomon encoder (cold cache).
func VerifReset() { ec = newErrorCorrection() }

// VerifCacheState returns the generator polynomials cached so far.
func VerifCacheState() [][]int { return utils.VerifRSCache(ec.rs) }

// VerifRestore puts the cache back into a state read earlier with VerifCacheState.
func VerifRestore(polys [][]int) bool { return utils.VerifRSSetCache(ec.rs, polys) }
