//go:build verif

package utils

import (
	"reflect"
	"sort"
	"strconv"
)

// Export hooks for the verification harness (/verif). They only read state.

// VerifBitListState returns the complete concrete state of a BitList.
func VerifBitListState(bl *BitList) (count int, words []int32) {
	return bl.count, append([]int32(nil), bl.data...)
}

// VerifRSCache returns a copy of the generator polynomials cached by rs.
func VerifRSCache(rs *ReedSolomonEncoder) [][]int {
	out := make([][]int, len(rs.polynomes))
	for i, p := range rs.polynomes {
		if p != nil {
			out[i] = append([]int(nil), p.Coefficients...)
		}
	}
	return out
}

// VerifPoly builds a polynomial without the caller needing the field pointer twice.
func VerifPoly(gf *GaloisField, coeff []int) *GFPoly {
	return NewGFPoly(gf, append([]int(nil), coeff...))
}

// VerifBitListClone returns a deep copy with the same count, words and capacity.
func VerifBitListClone(bl *BitList) *BitList {
	return &BitList{count: bl.count, data: append([]int32(nil), bl.data...)}
}

// VerifRSSetCache replaces the cached generator polynomials of rs by copies of polys
// (a state previously read with VerifRSCache); used to return to a BFS node.
func VerifRSSetCache(rs *ReedSolomonEncoder, polys [][]int) {
	ps := make([]*GFPoly, len(polys))
	for i, p := range polys {
		ps[i] = &GFPoly{rs.gf, append([]int(nil), p...)}
	}
	rs.polynomes = ps
}

// VerifDeepKey digests every field of v (also unexported ones, through reflection) into a
// canonical string: the explorer's state key then also sees fields that did not exist when
// the harness was written (a cache added to a struct, say).
func VerifDeepKey(v any) string {
	var b []byte
	var walk func(x reflect.Value, depth int)
	walk = func(x reflect.Value, depth int) {
		if depth > 6 {
			b = append(b, '~')
			return
		}
		switch x.Kind() {
		case reflect.Ptr, reflect.Interface:
			if x.IsNil() {
				b = append(b, 'n')
				return
			}
			b = append(b, '*')
			walk(x.Elem(), depth+1)
		case reflect.Struct:
			b = append(b, '{')
			for i := 0; i < x.NumField(); i++ {
				walk(x.Field(i), depth+1)
				b = append(b, ';')
			}
			b = append(b, '}')
		case reflect.Slice, reflect.Array:
			if x.Kind() == reflect.Slice {
				b = strconv.AppendInt(b, int64(x.Len()), 10)
				b = append(b, '/')
				b = strconv.AppendInt(b, int64(x.Cap()), 10)
			}
			b = append(b, '[')
			// trailing zero elements are summarised by the length above
			last := x.Len() - 1
			for last >= 0 && x.Index(last).IsZero() {
				last--
			}
			for i := 0; i <= last; i++ {
				walk(x.Index(i), depth+1)
				b = append(b, ',')
			}
			b = append(b, ']')
		case reflect.Map:
			keys := x.MapKeys()
			strs := make([]string, len(keys))
			for i, k := range keys {
				var kb []byte
				kb, b = b, nil
				walk(k, depth+1)
				b = append(b, '=')
				walk(x.MapIndex(k), depth+1)
				strs[i] = string(b)
				b = kb
			}
			sort.Strings(strs)
			b = append(b, 'm')
			for _, s := range strs {
				b = append(b, s...)
				b = append(b, ',')
			}
		case reflect.Int, reflect.Int8, reflect.Int16, reflect.Int32, reflect.Int64:
			b = strconv.AppendInt(b, x.Int(), 16)
		case reflect.Uint, reflect.Uint8, reflect.Uint16, reflect.Uint32, reflect.Uint64, reflect.Uintptr:
			b = strconv.AppendUint(b, x.Uint(), 16)
		case reflect.Bool:
			if x.Bool() {
				b = append(b, 'T')
			} else {
				b = append(b, 'F')
			}
		case reflect.String:
			b = strconv.AppendQuote(b, x.String())
		case reflect.Float32, reflect.Float64:
			b = strconv.AppendFloat(b, x.Float(), 'g', -1, 64)
		default:
			b = append(b, '?') // funcs, channels, unsafe pointers: identity is not state we can key on
		}
	}
	walk(reflect.ValueOf(v), 0)
	return string(b)
}
