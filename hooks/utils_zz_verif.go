//go:build verif

package utils

import (
	"reflect"
	"sort"
	"strconv"
	"unsafe"
)

// Export hooks for the verification harness (/verif). They reach the private state through
// reflection only, so that they still compile (and degrade to "not inspectable") when the
// layout of a struct changes.

// VerifRSCache returns a copy of the generator polynomials cached by rs, or nil if the cache is
// not a plain slice of polynomials any more.
func VerifRSCache(rs *ReedSolomonEncoder) [][]int {
	v := reflect.ValueOf(rs).Elem().FieldByName("polynomes")
	if !v.IsValid() || v.Kind() != reflect.Slice {
		return nil
	}
	out := make([][]int, v.Len())
	for i := 0; i < v.Len(); i++ {
		e := v.Index(i)
		for e.Kind() == reflect.Ptr || e.Kind() == reflect.Interface {
			if e.IsNil() {
				break
			}
			e = e.Elem()
		}
		if e.Kind() != reflect.Struct {
			continue
		}
		c := e.FieldByName("Coefficients")
		if !c.IsValid() || c.Kind() != reflect.Slice {
			return nil
		}
		out[i] = make([]int, c.Len())
		for j := range out[i] {
			out[i][j] = int(c.Index(j).Int())
		}
	}
	return out
}

// VerifPoly builds a polynomial without the caller needing the field pointer twice.
func VerifPoly(gf *GaloisField, coeff []int) *GFPoly {
	return NewGFPoly(gf, append([]int(nil), coeff...))
}

func settable(f reflect.Value) reflect.Value {
	return reflect.NewAt(f.Type(), unsafe.Pointer(f.UnsafeAddr())).Elem()
}

// VerifBitListClone returns a deep copy (every field; slices are copied with their capacity).
func VerifBitListClone(bl *BitList) *BitList {
	n := new(BitList)
	reflect.ValueOf(n).Elem().Set(reflect.ValueOf(bl).Elem())
	v := reflect.ValueOf(n).Elem()
	for i := 0; i < v.NumField(); i++ {
		f := v.Field(i)
		if f.Kind() == reflect.Slice && !f.IsNil() {
			w := settable(f)
			c := reflect.MakeSlice(f.Type(), f.Len(), f.Cap())
			reflect.Copy(c, w)
			w.Set(c)
		}
	}
	return n
}

// VerifRSSetCache replaces the cached generator polynomials of rs by copies of polys (a state
// previously read with VerifRSCache); it reports false if the cache cannot be set that way.
func VerifRSSetCache(rs *ReedSolomonEncoder, polys [][]int) (ok bool) {
	defer func() {
		if recover() != nil {
			ok = false
		}
	}()
	v := reflect.ValueOf(rs).Elem()
	f := v.FieldByName("polynomes")
	if !f.IsValid() || f.Kind() != reflect.Slice || polys == nil {
		return false
	}
	ns := reflect.MakeSlice(f.Type(), len(polys), len(polys))
	for i, p := range polys {
		ns.Index(i).Set(reflect.ValueOf(NewGFPoly(rs.gf, append([]int(nil), p...))))
	}
	settable(f).Set(ns)
	return true
}

// VerifDeepKey digests every field of v (also unexported ones, through reflection) into a
// canonical string: the explorer's state key then also sees fields that did not exist when
// the harness was written (a cache added to a struct, say).
func VerifDeepKey(v any) string {
	var b []byte
	var walk func(x reflect.Value, depth int)
	walk = func(x reflect.Value, depth int) {
		if depth > 6 {
			b = append(b, '~')
			return
		}
		switch x.Kind() {
		case reflect.Ptr, reflect.Interface:
			if x.IsNil() {
				b = append(b, 'n')
				return
			}
			b = append(b, '*')
			walk(x.Elem(), depth+1)
		case reflect.Struct:
			b = append(b, '{')
			for i := 0; i < x.NumField(); i++ {
				walk(x.Field(i), depth+1)
				b = append(b, ';')
			}
			b = append(b, '}')
		case reflect.Slice, reflect.Array:
			if x.Kind() == reflect.Slice {
				b = strconv.AppendInt(b, int64(x.Len()), 10)
				b = append(b, '/')
				b = strconv.AppendInt(b, int64(x.Cap()), 10)
			}
			b = append(b, '[')
			// trailing zero elements are summarised by the length above
			last := x.Len() - 1
			for last >= 0 && x.Index(last).IsZero() {
				last--
			}
			for i := 0; i <= last; i++ {
				walk(x.Index(i), depth+1)
				b = append(b, ',')
			}
			b = append(b, ']')
		case reflect.Map:
			keys := x.MapKeys()
			strs := make([]string, len(keys))
			for i, k := range keys {
				var kb []byte
				kb, b = b, nil
				walk(k, depth+1)
				b = append(b, '=')
				walk(x.MapIndex(k), depth+1)
				strs[i] = string(b)
				b = kb
			}
			sort.Strings(strs)
			b = append(b, 'm')
			for _, s := range strs {
				b = append(b, s...)
				b = append(b, ',')
			}
		case reflect.Int, reflect.Int8, reflect.Int16, reflect.Int32, reflect.Int64:
			b = strconv.AppendInt(b, x.Int(), 16)
		case reflect.Uint, reflect.Uint8, reflect.Uint16, reflect.Uint32, reflect.Uint64, reflect.Uintptr:
			b = strconv.AppendUint(b, x.Uint(), 16)
		case reflect.Bool:
			if x.Bool() {
				b = append(b, 'T')
			} else {
				b = append(b, 'F')
			}
		case reflect.String:
			b = strconv.AppendQuote(b, x.String())
		case reflect.Float32, reflect.Float64:
			b = strconv.AppendFloat(b, x.Float(), 'g', -1, 64)
		default:
			b = append(b, '?') // funcs, channels, unsafe pointers: identity is not state we can key on
		}
	}
	walk(reflect.ValueOf(v), 0)
	return string(b)
}
