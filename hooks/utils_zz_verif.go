//go:build verif

package utils

// Export hooks for the verification harness (/verif). They only read state.

// VerifBitListState returns the complete concrete state of a BitList.
func VerifBitListState(bl *BitList) (count int, words []int32) {
	return bl.count, append([]int32(nil), bl.data...)
}

// VerifRSCache returns a copy of the generator polynomials cached by rs.
func VerifRSCache(rs *ReedSolomonEncoder) [][]int {
	out := make([][]int, len(rs.polynomes))
	for i, p := range rs.polynomes {
		if p != nil {
			out[i] = append([]int(nil), p.Coefficients...)
		}
	}
	return out
}

// VerifPoly builds a polynomial without the caller needing the field pointer twice.
func VerifPoly(gf *GaloisField, coeff []int) *GFPoly {
	return NewGFPoly(gf, append([]int(nil), coeff...))
}

// VerifBitListClone returns a deep copy with the same count, words and capacity.
func VerifBitListClone(bl *BitList) *BitList {
	return &BitList{count: bl.count, data: append([]int32(nil), bl.data...)}
}

// VerifRSSetCache replaces the cached generator polynomials of rs by copies of polys
// (a state previously read with VerifRSCache); used to return to a BFS node.
func VerifRSSetCache(rs *ReedSolomonEncoder, polys [][]int) {
	ps := make([]*GFPoly, len(polys))
	for i, p := range polys {
		ps[i] = &GFPoly{rs.gf, append([]int(nil), p...)}
	}
	rs.polynomes = ps
}
