//go:build verif

package qr

// Stub of zz_verifint.go: used when that file does not compile against the current sources (a
// private function it calls was renamed or changed its signature). Everything else still works.
const VerifInternals = false

func VerifIterateModules(dim int, occ func(x, y int) bool) []int { return nil }

func VerifV1Occupied() (int, func(x, y int) bool) { return 0, nil }

func VerifEncodeAlphaNumeric(content string, level ErrorCorrectionLevel) ([]byte, int, error) {
	return nil, 0, nil
}

func VerifSplitToBlocks(version byte, level ErrorCorrectionLevel) []byte { return nil }
