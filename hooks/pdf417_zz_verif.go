//go:build verif

package pdf417

// VerifCodewords exposes the bar-space pattern table to the verification harness.
func VerifCodewords() [3][]int {
	var t [3][]int
	for i := 0; i < 3 && i < len(codewords); i++ {
		t[i] = append([]int(nil), codewords[i]...)
	}
	return t
}

// VerifStartStop exposes the start and stop patterns.
func VerifStartStop() (int, int) { return start_word, stop_word }
