//go:build verif

package code93

// VerifTableValues returns the check value of every entry of the encode table.
func VerifTableValues() map[rune]int {
	out := make(map[rune]int, len(encodeTable))
	for r, e := range encodeTable {
		out[r] = e.value
	}
	return out
}
