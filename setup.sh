#!/bin/sh
# Builds the framework from files on disk only and warms the Go build cache
# (plain, instrumented and -race builds, with the same flags check.sh uses).
set -e
V=$(dirname "$(readlink -f "$0")")
export GOFLAGS=-mod=mod GOPROXY=off GOSUMDB=off GOTOOLCHAIN=local
mkdir -p $V/bin $V/.work $V/evidence
cd $V/harness
go build -o $V/bin/instrument ./cmd/instrument
REPO=/repo; HOOKVAR=""
W=$V/.work/setup.$$; mkdir -p $W/inst; trap 'rm -rf $W' EXIT
hooks_entries() {
  sep=""
  for f in $V/hooks/*_zz_verif.go $V/hooks/*_zz_verifint$HOOKVAR.go; do
    [ -f "$f" ] || continue
    b=$(basename "$f" .go); pkg=${b%%_zz_*}; name=zz_${b#*_zz_}
    if [ "$pkg" = root ]; then dst=$REPO/$name.go; else dst=$REPO/$pkg/$name.go; fi
    printf '%s"%s":"%s"' "$sep" "$dst" "$f"
    sep=","
  done
}
{ printf '{"Replace":{'; hooks_entries; printf '}}\n'; } > $W/overlay.json
go build -tags verif -overlay $W/overlay.json -o $W/explorer ./cmd/explorer
$V/bin/instrument -repo /repo -out $W/inst > $W/inst.map
{ printf '{"Replace":{'; hooks_entries; while read -r src dst; do printf ',"%s":"%s"' "$src" "$dst"; done < $W/inst.map; printf '}}\n'; } > $W/overlay_s.json
go build -tags "verif verifsched" -overlay $W/overlay_s.json -o $W/explorer_s ./cmd/explorer
go build -race -tags verif -overlay $W/overlay.json -o $W/racepass ./cmd/racepass
# self-test of the reference decoders on their own unit tests (fast ones)
go test -count=1 ./oracle/lin1d/ ./oracle/grid/ >/dev/null 2>&1 || true
echo "setup ok"
