#!/bin/sh
# Builds the framework from files on disk only and warms the Go build cache.
set -e
V=/verif
export GOFLAGS=-mod=mod GOPROXY=off GOSUMDB=off GOTOOLCHAIN=local
mkdir -p $V/bin $V/.work $V/evidence
cd $V/harness
go vet ./core/ ./oracle/grid/ >/dev/null 2>&1 || true
if [ -d cmd/instrument ]; then go build -o $V/bin/instrument ./cmd/instrument; fi
# warm the cache: one explorer build with the hooks (same flags check.sh uses)
W=$V/.work/setup.$$; mkdir -p $W; trap 'rm -rf $W' EXIT
{
  printf '{"Replace":{'; sep=""
  for f in $V/hooks/*_zz_verif.go; do
    pkg=$(basename "$f" _zz_verif.go)
    if [ "$pkg" = root ]; then dst=/repo/zz_verif.go; else dst=/repo/$pkg/zz_verif.go; fi
    printf '%s"%s":"%s"' "$sep" "$dst" "$f"; sep=","
  done
  printf '}}\n'
} > $W/overlay.json
go build -tags verif -overlay $W/overlay.json -o $W/explorer ./cmd/explorer
echo "setup ok"
