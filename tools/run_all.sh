#!/bin/sh
# run_all.sh [tier]: every registered check on /repo, one line per check
T=${1:-quick}
cd /verif
for id in C01 C02 C03 C04 C05 C06 C07 C08 C09 C10 C11 C12 C13 C14 C15 C16 C17 C18; do
  s=$(date +%s)
  out=$(./check.sh $id --tier $T 2>&1); rc=$?
  echo "$id rc=$rc $(( $(date +%s) - s ))s $(echo "$out" | grep "^$id tier" | cut -c1-200)"
  [ $rc -ne 0 ] && echo "$out" | head -20
done
