#!/usr/bin/env python3
"""Prints the markdown table of kept seeded changes from seeded/*/meta.json (+ the one-line descriptions below)."""
import json, glob, os
DESC = {
 "C01a": ("alphanumeric bit estimate `len*11/2`: odd lengths one bit short pick a too-small version", "one length per 13 version/level cells (e.g. 21 chars at M)", ""),
 "C01b": ("numeric count width `< 27` -> `<= 27`", "numeric/Auto content landing exactly in version 27", ""),
 "C01c": ("alignment patterns drawn after the timing lines: those on row/column 6 are skipped", "any symbol of version >= 7", ""),
 "C01d": ("version-info bits reversed in place in the shared table", "second encode of the same version >= 7 in one process", "first reported as non-reproducible (exit 2); reproduction ladder added (7.5)"),
 "C02a": ("pad randomisation `> 254` -> `>= 254` emits codeword 0", "a pad at position 28, 534, 787, ... (e.g. 23..26 codewords)", ""),
 "C02b": ("per-block RS buffer hoisted out of the loop", "only 144x144 (unequal blocks)", ""),
 "C02c": ("upper shift then digit-pair look-ahead: byte 0xB0..0xB9 + digit becomes `235, pair`", "that byte class followed by an ASCII digit", ""),
 "C02d": ("layout taken from a sync.Pool, matrix not cleared", "a 12/16/20/24 symbol after a larger one in the same process", "C02 by luck of shard order; C15 pair sweep added (7.5)"),
 "C03a": ("binary shift while latched in Punct (dropped condition)", ">= 3-5 punctuation characters then a binary byte", ""),
 "C03b": ("matrix size formula off for full-range 4 and 19 layers", "those two layer counts", ""),
 "C03c": ("compact 64-word limit tested on unstuffed bits", "auto layers, ecc <= 17 %, 54..61 bytes of 0x00/0xFF", "missed; low-percentage stuffing payload sweep added to the Aztec enumeration"),
 "C03d": ("stuffed bits go stale when the word size changes between candidates", "payload in the few-bit band under a word-size boundary", ""),
 "C04a": ("isText accepts DEL", "0x7F inside a text segment", ""),
 "C04b": ("RS Compute `if temp == 0 { continue }`", "a step with zero feedback (~1/929 per codeword)", ""),
 "C04c": ("calcDimensions memoised with key `data<<9|ecc` (collides at level 8)", "Encode(\"\",8) and Encode(\"A\",8) in one process", "missed by C04 and C15; C15 pair sweep added (7.5)"),
 "C04d": ("uint64 fast path for numeric chunks overflows", "a last chunk of exactly 19 digits >= 8446744073709551616", ""),
 "C05a": ("FNC4 value in code set A is 100 instead of 101", "FNC4 next to control characters", ""),
 "C05b": ("check accumulator narrowed to uint16", "long high-valued contents (>= 38 lower-case chars)", ""),
 "C06a": ("G pattern of digit 8 transposed into that of 7", "EAN-13, digit 8 in a G-parity position (27 of 600 cells)", ""),
 "C06b": ("check digit `9-(sum-1)%10`", "the four all-zero inputs", "reported by C10 only; C06 now judges acceptance too"),
 "C07a": ("Code 93 weights from byte offsets", "checksum + a 2-byte shift rune in the summed string", ""),
 "C07b": ("strings.Builder from a sync.Pool not reset on the error path", "a rejected full-ASCII Encode, then an accepted one", "C07 exit 2 / C15 missed; history replay + refused calls in the C15 alphabet (7.5)"),
 "C08a": ("Codabar '.' row equals '/'", "texts containing '.'", ""),
 "C08b": ("AddCheckSum weights anchored at the left", "even-length contents", ""),
 "C09a": ("1D right edge `width-offsetX`", "odd padding and a fill different from the background", ""),
 "C09b": ("1D refuses height < source height", "re-scaling a 1D symbol that was scaled to height > 1", ""),
 "C09c": ("factor from `size/org + 0.01`", "sources >= 100 modules at widths k*org-1", "found only through a chain; large sources added"),
 "C09d": ("unwraps a 'no-op' scaled source (factor 1, offset 0)", "a chain whose first step is +1 pixel", ""),
 "C10a": ("144x144 block sizes swapped: index panic", "content needing 144x144", ""),
 "C10b": ("explicit compact -4: `>=` for the 64-word limit", "layers -4, ecc <= 16 %, exactly 64 data words", "missed; differential oracle auto-size vs explicit request + every length at low percentages"),
 "C10c": ("digit run via unicode.IsDigit, bytes sliced with a rune count", ">= 13 non-ASCII decimal digits", "missed; non-ASCII digit/letter classes added to the alphabets, PDF417 must-accept bound"),
 "C10d": ("Codabar regexp MatchString (unanchored start)", "invalid material before a complete start/data/stop tail", ""),
 "C11a": ("EAN-8 path drops the colour scheme", "EAN-8 + WithColor + scheme != ColorScheme16", ""),
 "C11b": ("Code 39 full-ASCII spells '>' as '%J'", "that one character", "C07 only; C11 now runs the linear alphabets for Content()"),
 "C11c": ("2 of 5 barcodes share one bit array", "encode A, encode B, look at A again", "missed by C11/C15/C08; snapshot re-observation added to C15 pairs and C11"),
 "C11d": ("mask candidates ranged over a map", "payloads with two equal-penalty masks (~1 %)", "missed; determinism sweep (C15) and QR content sweep (C11)"),
 "C12a": ("PDF417 RS early continue", "zero feedback step", ""),
 "C12b": ("auto-size fit test uses unstuffed bits", "payloads needing heavy stuffing just below a size step", "missed by C12 (C10 saw a panic); stuffing payloads added to the percentage grid"),
 "C12c": ("DataMatrix block buffer hoisted (whole buffer passed)", "144x144 only", ""),
 "C12d": ("auto-size loop falls through with 32 layers", "stuffed size exceeds every symbol, unstuffed fits 32 layers", ""),
 "C13a": ("auto-size `<=` -> `<`", "exact fits (67 of ~43000 cases)", ""),
 "C13b": ("digit-pair look-ahead needs a following character", "content ending in a digit pair on a capacity boundary", ""),
 "C13c": ("numeric size estimate 10 bits high for lengths divisible by 3", "one length per version x level", ""),
 "C13d": ("explicit-layer check ignores the `TotalBits % wordSize` remainder", "sizes with a remainder, requirement inside it", ""),
 "C14a": ("Code 39 values of '/' and '+' swapped", "content with '/' or '+', or check value 40/41", ""),
 "C14b": ("EAN check digit 9 becomes 0", "payloads with check digit 9", ""),
 "C14c": ("Code 128 check sum accumulated in uint16 in a helper", "long lower/mixed-case contents", ""),
 "C14d": ("full-ASCII check character passed through prepare()", "full ASCII + check + residue 39..42", ""),
 "C15a": ("version-info table reversed in place", "second encode of a version >= 7", "exit 2 at first; repetition mode of the reproduction ladder"),
 "C15b": ("Aztec state expansion ranges over a map", "a bare CR in a tie position (1 call in 8 differs)", "exit 2 at first; intermittent mode of the reproduction ladder"),
 "C15c": ("QR version memoised by (level, bits) without the mode", "two encodes with equal payload bits in different modes at a capacity boundary", "missed; cross-mode payload-bit collision pairs added"),
 "C15d": ("mask penalties computed in goroutines, first arrival wins ties", "payloads with tied masks (~0.8 %)", "missed; determinism sweep added"),
 "C16a": ("cache length read before taking the lock", "cold-start contention with different degrees", ""),
 "C16b": ("terminator loop `<=`: one extra byte", "payload within 0..3 bits of capacity: IterateBytes goroutine left blocked", "race pass only at first; capacity-filling whole-call harnesses added to S3d"),
 "C16c": ("PDF417 byte-compaction scratch array at package level", "two overlapping PDF417 calls with >= 6 binary bytes", "missed; 'same operation in g goroutines' mode added to the race pass"),
 "C16d": ("alphanumeric producer started before the size check", "QR calls refused for size", "race pass only at first; refused whole calls added to S3d"),
 "C17a": ("GFPoly.Divide collects quotient scales by appending", "quotients with interior/trailing zero coefficients", ""),
 "C17b": ("`degree >` instead of `>=` in getPolynomial", "request exactly one above the largest so far", ""),
 "C18a": ("AddBits fast path without masking", "value with bits above k", "missed; AddBits operations with high bits added"),
 "C18b": ("batch grow + grow copies only full words", "variadic AddBit across a growth boundary from an unaligned length", ""),
}
rows = []
for f in sorted(glob.glob('/verif/seeded/*/meta.json')):
    m = json.load(open(f)); s = m['id']
    d = DESC.get(s, ("", "", ""))
    det = ', '.join(f"{c}" for c, r in m['checks_run'].items() if r['exit'] == 1)
    miss = ', '.join(f"{c}" for c, r in m['checks_run'].items() if r['exit'] != 1)
    ok = all(m['confirmed'].values())
    rows.append(f"| {s} | {d[0]} | {d[1]} | {det or '-'}{(' (not: ' + miss + ')') if miss else ''} | {d[2] or '-'} |" + ("" if ok else " UNCONFIRMED"))
print("| seed | change | needs | reported by | history |\n|---|---|---|---|---|")
print('\n'.join(rows))
