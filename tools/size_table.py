#!/usr/bin/env python3
"""size_table.py <dir with thorough evidence>: prints the table of DESIGN 7.6 from /verif/evidence (quick tier)
and the given directory (thorough tier, e.g. the evidence written by a `vp run` of the thorough commands)."""
import json, sys, os
T = sys.argv[1] if len(sys.argv) > 1 else None
def num(n):
    return f"{n:,}".replace(",", " ")
def row(e):
    c = e.get("coverage", {})
    return f"{num(c.get('evaluations', 0))} / {num(c.get('states', 0))} / {num(c.get('transitions', 0))} / {round(float(e.get('wall_s', 0)))}"
print("| property | engine | quick: executions / states / transitions / wall s | thorough: executions / states / transitions / wall s |")
print("|---|---|---|---|")
for i in range(1, 19):
    pid = f"C{i:02d}"
    q = json.load(open(f"/verif/evidence/{pid}.json"))
    t = None
    if T and os.path.exists(f"{T}/{pid}.json"):
        t = json.load(open(f"{T}/{pid}.json"))
        if t.get("tier") != "thorough":
            t = None
    print(f"| {pid} | {q.get('coverage', {}).get('engine', '')} | {row(q)} | {row(t) if t else '-'} |")
