#!/bin/bash
# seed_summary.sh <seed-name> <check>... : compact verdict lines for one seed under /tmp/wt/out
s=$1; shift
out=$(LINES_OUT=6 /verif/tools/try_seed.sh /tmp/wt/out/$s "$@" 2>&1)
clean=$(echo "$out" | sed -n '/demo on clean tree/,/build + existing/p' | grep -c "^ok")
suite=$(echo "$out" | grep -A3 "build + existing tests" | grep -c "FAIL")
demo=$(echo "$out" | sed -n '/demo with the change/,/== check/p' | grep -c "^FAIL\|--- FAIL")
echo "$s: demo-clean-pass=$clean suite-fail-lines=$suite demo-fails-with-change=$demo"
echo "$out" | grep -A3 "^== check" | grep "^== check\|exit=\|case:\|what:" | cut -c1-200
