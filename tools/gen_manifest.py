#!/usr/bin/env python3
"""Regenerates /verif/MANIFEST.json from the table below (kept in one place so it is always valid)."""
import json, sys
V = "/verif"
props = [json.loads(l) for l in open(f"{V}/properties.jsonl")]
ids = [p["id"] for p in props]

# id -> (engine, technique, level text, level note, design_ref)
claimed = {
 "C17": ("E+B", "exhaustive operand-pair/triple enumeration of every field against a carry-less reference + explicit-state BFS over ReedSolomonEncoder.Encode histories (state = cached generator list read through a hook)",
         "Every operand pair of every Galois field the library constructs (and every triple for sizes <= 256) is executed on the real code and compared with an independent reference; polynomial division is enumerated over all divisors/dividends up to a stated degree; the Reed-Solomon encoder is explored as a state machine (BFS to a fixpoint over request orders, state key = reflective digest of every field) with syndromes, reference remainder and cache contents checked in every state, and on every 3-symbol data vector of the small fields (a 2-symbol-exhaustive slice of the GF(256) fields); every check-symbol count 1..min(600, q-1) is requested on a fresh encoder per field, and the data is always passed as a window of a larger buffer that must stay unchanged. Field laws are finite statements, so exhaustive enumeration decides them outright; the unbounded parts (polynomial degree, data length) are covered to stated bounds.",
         "Trusted: the reference carry-less multiplication in harness/checks/c17.go. Polynomial sweeps are bounded (coefficient counts in evidence.bounds); GF(1024)/GF(4096) associativity follows from equality with the reference ring and is not enumerated.",
         "4.C17"),
 "C18": ("B", "explicit-state BFS over BitList operation sequences (exact concrete state key via hook, clone-based successors), every observer compared with a []bool model after every transition",
         "All operation sequences up to the stated depth from the empty list, from NewBitList(n) and from lists pre-filled to within k bits of every internal growth and word boundary are executed on the real BitList (the observers GetBytes/IterateBytes/GetBit are operations of the alphabet too; the state key digests every struct field by reflection); Len, every GetBit, GetBytes and the drained IterateBytes channel are compared with a boolean-slice model in every reached state (also with one byte view kept open while a second list is iterated), and the iterator goroutine must be gone. The sequence space is what unit tests cannot sample; bounded exhaustive search over it with an exact state key is the natural decision procedure.",
         "Trusted: the []bool model and packing in harness/checks/c18.go; hooks VerifBitListState/VerifBitListClone (read/copy only). Bounds (depth, k) in evidence.bounds.",
         "4.C18"),
}

E_NOTE = "Trusted: the reference decoder and tables in harness/oracle (own transcriptions of the standards, validated structurally and by mutation demonstrations). Small-scope hypothesis: exhaustive up to the word lengths / grids recorded in evidence.coverage.bounds."
def E(text): return text
claimed.update({
 "C05": ("E", "bounded exhaustive enumeration of Code 128 contents x checksum variants, each symbol decoded by an independent strict reference decoder (code sets A/B/C, switches, check character)",
         "Every content over class-representative, full-alphabet and macro alphabets up to the stated lengths, and a length grid 1..82, is encoded by the real encoder and decoded from its pixels by a reference decoder that shares no table with the library; the decoded runes, the modulo-103 check character and the code-set transition sequences are compared/recorded for every execution; a refusal of a content inside the stated domain (1..80 characters over the alphabet) is a violation too.", E_NOTE, "4.C05"),
 "C06": ("E", "exhaustive enumeration of EAN inputs (all 10^7 seven-digit strings; eight-digit strings; 12/13-digit family; malformed strings), decoded by an independent reference decoder",
         "All seven-digit inputs and (thorough) all 10^8 eight-digit inputs are executed; acceptance, appended/validated GS1 check digit, guard bars, L/G/R digit sets, EAN-13 first-digit parity, Content and kind are checked on each.", E_NOTE, "4.C06"),
 "C07": ("E", "bounded exhaustive enumeration of Code 39/93 texts x includeChecksum x fullASCII, decoded by independent reference decoders (patterns, gaps, check characters mod 43 / C,K mod 47, full-ASCII pairs)",
         "All words up to length 2 (thorough 3) over the complete alphabets in all four option mixes for both symbologies, plus strings longer than the Code 93 weight periods with every single and double foreign position and every length whose symbol ends within a character or two of 4096 and 8192 modules, are encoded and decoded back; check characters must be present exactly when requested.", E_NOTE, "4.C07"),
 "C08": ("E", "bounded exhaustive enumeration of Codabar strings and digit strings (both 2-of-5 variants, AddCheckSum), incl. rune-width classes, decoded by independent reference decoders",
         "All Codabar words up to length 5 (thorough 6) and all digit words up to length 6 (thorough 7) plus multi-byte rune classes and the lengths whose symbols end near 4096 and 8192 modules are executed; symbols are decoded from narrow/wide element runs; the check-digit helper is verified against the 3-1 weighted sum.", E_NOTE, "4.C08"),
 "C14": ("E+B", "the C05/C06/C07 enumerations with the CheckSum() oracle, plus exhaustive sequences of 1..3 Scale operations on a fixed sub-family",
         "CheckSum() is compared with the reference check value and with the decoded check character on every accepted EAN / Code 128 / Code 39 input of the enumerations, and must be preserved (and still exposed) through every sequence of up to three Scale operations.", E_NOTE, "4.C14"),
})

claimed.update({
 "C01": ("E", "bounded exhaustive enumeration of QR contents x levels x modes over class/full alphabets and a capacity grid covering all 40 versions, each symbol decoded by an independent strict ISO 18004 reference reader",
         "Every explored (content, level, mode) is rendered by the real encoder and read back from the pixels: function patterns, BCH-valid format/version words, unmasking, de-interleaving with an independently sourced block table, zero RS syndromes for every block, segment parsing, terminator and pad codewords; decoded bytes must equal the input. The capacity grid places symbols at cap-1/cap/cap+1 of every version x level x mode (thorough: every length), so every block layout and both sides of every capacity constant are executed; every length from capacity(40)+2 to beyond the 16-bit wrap of the payload bit count (and around 2^15/2^16 characters) must be refused rather than truncated; the alphabets contain runes above U+00FF whose low byte is a digit or a letter.", E_NOTE, "4.C01"),
 "C02": ("E", "bounded exhaustive enumeration of DataMatrix contents (class words, all byte pairs, codeword-count grid over all 24 sizes), decoded by an independent strict ECC 200 reader",
         "Each symbol is checked for finder/clock of every region, read through an independent Annex F placement, RS-checked per interleaved block and ASCII-decoded incl. upper shift and 253-state pads; decoded bytes must equal the input. The grid reaches every capacity boundary five ways.", E_NOTE, "4.C02"),
 "C03": ("E", "bounded exhaustive enumeration of Aztec payloads x ecc% x layer requests (class words, all byte pairs, binary-shift threshold runs, capacity boundary of every layer request), decoded by an independent strict ISO 24778 reader",
         "Each symbol is checked for bullseye, orientation marks, RS-valid mode message consistent with the size, complete reference grid, RS-valid data words without all-0/all-1 words, then un-stuffed and decoded through all modes/shifts/binary shift; payload and honoured layer request are compared. Macro words over runs long enough to latch drive every latch path of the five-mode automaton; runs of punctuation pairs reach the largest byte counts that fit.", E_NOTE, "4.C03"),
 "C04": ("E", "bounded exhaustive enumeration of PDF417 data x security levels (sub-mode class words, all byte pairs, macro words over compaction segments, length grid), decoded by an independent strict ISO 15438 reader",
         "Each symbol is checked for start/stop, cluster discipline, left/right row indicators, RS validity over GF(929) with directly computed syndromes, and decoded through text/byte/numeric compaction with all sub-modes; decoded bytes must equal the input. Macro words drive the compaction automaton through the transitions (shifted byte between text, numeric latches, pads in each sub-mode) where state can desynchronise; words over six-byte groups at every power of 900 and over 44-digit groups with leading zeros exercise the base conversions; the capacity boundary (900 codewords) of every level is placed exactly.", E_NOTE + " PDF417 bar-space table: structural validation + pinned digest (trusted base).", "4.C04"),
})

claimed.update({
 "C09": ("B", "breadth-first exploration of chains of Scale/ScaleWithFill operations over full and relative size windows, every pixel compared with an integer arithmetic reference model",
         "From one smallest symbol of every encoder family (and five symbols with >= 100 modules on a sparse window around 1x, 2x, 3x) under two colour schemes, every (width,height) in 1..3x+2 and chains of up to 2 (thorough 3) further scalings are executed on the real code and on an integer-only reference model; refusal/acceptance must agree at every step, and bounds, every pixel, Content, Metadata and CheckSum at the end. This covers every residue of the integer factor and of the centring margin, both sides of the error boundary, and already-scaled sources.", "Trusted: the arithmetic model in harness/checks/c09.go (accepts either rounding of an odd margin). Sources: the smallest symbol of each family plus five large ones; Scale only looks at bounds/dimensionality/accessors.", "4.C09"),
 "C10": ("E", "bounded exhaustive enumeration of every encoder entry point over alphabets, full parameter domains and capacity edges under a recover wrapper + watchdog, against a three-valued representability oracle",
         "Every call explored by the round-trip enumerations, plus boundary-alphabet words (incl. non-ASCII digits/letters/space), all 256 PDF417 level bytes, Aztec layers -40..40 x percentages 0..100+, runs of non-ASCII characters, runes whose truncation is a digit or letter, dense sweeps beyond capacity (past the 16-bit wrap of QR bit counts, around 2^15..2^17 characters/codewords/bits for the other 2D codes, every Code 128 length to 700), long linear symbols around 4096/8192 modules, and the differential rule that what automatic Aztec sizing fits into a size the explicit request for that size must accept, must return, with exactly one of barcode/error, accepting what is representable and refusing what is not (an explicit unspecified band never alarms).", E_NOTE + " Non-termination is decided by a 180 s per-call watchdog.", "4.C10"),
 "C11": ("E", "exhaustive families x WithColor variants x 17 colour schemes (incl. pairs that differ as values but render alike) x representative contents of every symbol size; every pixel compared by identity with the scheme's two colours and with the plain symbol's module matrix",
         "The plain symbol is validated by the family's reference decoder (prescribed size, Metadata, Content, black on white) and its module matrix is snapshotted (it must not change when other contents of the family are rendered afterwards); then every colour scheme is rendered and each pixel must be identical to exactly the scheme's foreground or background, give the same module matrix, and ColorModel/ColorScheme/Metadata/Content must report correctly.", E_NOTE, "4.C11"),
 "C12": ("E", "the QR/PDF417/Aztec/DataMatrix enumerations with the decoders' structure records as oracle (declared level, check-codeword counts, zero syndromes, Aztec check bits vs percentage), plus the full Aztec percentage grid",
         "On every decoded symbol the declared level equals the requested one and the carried check codewords are exactly those of the independent ISO tables (verified by zero syndromes after independent de-interleaving); for Aztec, check bits >= pct% of decoded data bits for every percentage 0..100.", E_NOTE, "4.C12"),
 "C13": ("E", "capacity-boundary sweeps against reference capacity models; for Aztec exhaustive refusal check of all smaller explicit layer requests per point",
         "QR version <= reference minimum at cap-1/cap/cap+1 (thorough: every length) of every version x level x mode incl. Auto; DataMatrix size == smallest for the reference ASCII encodation length; every smaller explicit Aztec request is refused; PDF417 padding < one row.", E_NOTE, "4.C13"),
 "C15": ("B", "explicit-state BFS over encode-operation sequences from cold package state (state = both generator caches via hook, exact key, snapshot/restore successors) with fresh-OS-process observations as oracle; exhaustive post-hoc mutation of every []byte argument",
         "Every operation of a 62-operation alphabet (incl. 14 refused calls) is observed in every reachable cache state (fixpoint) and in all raw sequences up to length 2 (thorough 3) and must equal what a freshly started process returns for the same call; caches must equal reference generators. All ordered pairs of a per-family input alphabet (about 25 000 depth-2 histories) plus QR cross-mode payload-bit collision pairs are executed back to back: second observation == fresh-process observation, and the barcode returned first is re-observed after the second call (snapshot). About 5 000 short payloads are each encoded 6 times in place (determinism). Bursts: for every DataMatrix size and every distinct QR check-codewords-per-block value, a reference content, thousands of block encodes of other contents of the same size, the reference content again (same barcode, caches equal reference generators). The pair alphabets include Scale calls and the WithColor entry points; the Aztec argument is a window of a larger caller buffer that must stay unchanged as a whole. Map-iteration independence is decided structurally; every byte of every slice argument is overwritten after the call and the barcode must not change.", "Trusted: sha256 observation digest; hooks VerifReset/VerifCacheState/VerifRestore; operation alphabet covers every distinct generator degree QR/DataMatrix can request.", "4.C15"),
})

claimed.update({
 "C16": ("S", "stateless schedule exploration of the instrumented real code under a hand-written controlled scheduler: DFS over choice sequences with iterative preemption bounding, group-level reduction for cross-call harnesses, exact global-state-key pruning for single-call pipelines; plus a separate free-running -race pass (detector)",
         "The current /repo sources are mechanically rewritten (go/ast + go/types) so that go statements, channel operations, package sync and every statement of lock-guarded files are scheduling points. Go statements (with arguments), channel operations, package sync (Mutex, RWMutex, WaitGroup, Once, Pool, Map, Cond), buffered and unbuffered channels, and every statement of functions that touch lock-guarded or run-time-written package-level state are scheduling points; such state is reset before every execution. S1 explores all interleavings (<= 2, thorough 3 preemptions) of concurrent Encode calls on one generator cache at statement granularity; S2 all pairs (thorough: triples) of top-level QR/DataMatrix/Scale calls from cold package state and, for every encoder family, two different calls of that family against each other (incl. equal symbol sizes under different colour schemes); S3 every schedule of each goroutine pipeline inside a call (iterateModules, alphanumeric producer incl. all error paths, IterateBytes+splitToBlocks, whole qr.Encode calls incl. capacity-filling, tied-mask and refused ones, one symbol of every version 1..40), preceded by reversed/rotated-order probes. On every complete schedule: no panic, no deadlock, no goroutine left parked, each call's result equals its sequential / fresh-process result, caches equal reference generators. Every reported schedule is replayed twice with identical traces before it is believed.",
         "Data races on memory the scheduler does not instrument, and weak memory orderings, are outside the family: S4 (free-running -race pass over {mixed, qr, rs, same, color, qrall} x goroutines {2,8,64} x GOMAXPROCS {1,2,4,16} and {3,5,6,7} for the QR modes, fresh process each, observations compared with a GOMAXPROCS=1 baseline process) complements as a sampling detector and can only add violations. Preemption bounds and the state-key soundness premise (threads of one call interact only through hooked operations) are stated in evidence.",
         "4.C16"),
})
pending_reason = "check not built yet in this round (planned, see DESIGN.md section 4); not claimed until its explorer exists and passes on the unchanged tree"

checks = []
for i in ids:
    if i not in claimed: continue
    eng, tech, text, note, ref = claimed[i]
    checks.append({
        "property_id": i,
        "quick_cmd": f"./check.sh {i} --tier quick",
        "thorough_cmd": f"./check.sh {i} --tier thorough",
        "evidence_file": f"/verif/evidence/{i}.json",
        "replay_cmd_template": f"./check.sh {i} --replay {{path}}",
        "engine": eng,
        "level_claimed": {"category": "model_checking", "text": text, "design_ref": ref},
        "level_note": note,
        "technique": tech,
    })
m = {
 "version": 1,
 "setup_cmd": "./setup.sh",
 "hooks": {
   "guard": "verif",
   "enable": "go build -tags verif -overlay <generated>: every /verif/hooks/<pkg>_zz_verif.go is mapped to /repo/<pkg>/zz_verif.go (added files only, each carrying //go:build verif; hooks/qr_zz_verifint.go, the seams into private functions of package qr, is replaced by hooks/qr_zz_verifint_stub.go when it does not compile against the current sources, and the C16 harnesses that need it are then reported as incomplete); for C16 additionally mechanically rewritten copies of the current utils/qr sources (tag verifsched). Nothing is committed to /repo for instrumentation.",
   "baseline_off_cmd": "cd /repo && GOFLAGS=-mod=mod GOPROXY=off GOSUMDB=off GOTOOLCHAIN=local go test -json -vet=off -count=1 -timeout 25m ./...",
   "source_commits": [],
   "add_only": True,
 },
 "engines": [
   {"name": "E", "path": "harness/checks", "serves_properties": [i for i in ids if i in claimed and "E" in claimed[i][0]], "kind_free_text": "bounded exhaustive input/configuration enumeration of the real encoders against independent reference decoders"},
   {"name": "B", "path": "harness/checks", "serves_properties": [i for i in ids if i in claimed and "B" in claimed[i][0]], "kind_free_text": "explicit-state breadth-first search over operation sequences of real objects, exact state key via export hooks"},
   {"name": "S", "path": "harness/sched", "serves_properties": [i for i in ids if i in claimed and "S" in claimed[i][0]], "kind_free_text": "stateless schedule exploration (controlled cooperative scheduler, iterative preemption bounding) of the instrumented real code"},
 ],
 "checks": checks,
 "not_applicable": [{"property_id": i, "reason": pending_reason} for i in ids if i not in claimed],
 "notes": "Exit protocol: 0 held / 1 VIOLATION / 2 check broken. Known findings: /verif/known_findings.json.",
}
json.dump(m, open(f"{V}/MANIFEST.json", "w"), indent=1)
print("claimed:", [c["property_id"] for c in checks])
