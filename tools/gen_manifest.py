#!/usr/bin/env python3
"""Regenerates /verif/MANIFEST.json from the table below (kept in one place so it is always valid)."""
import json, sys
V = "/verif"
props = [json.loads(l) for l in open(f"{V}/properties.jsonl")]
ids = [p["id"] for p in props]

# id -> (engine, technique, level text, level note, design_ref)
claimed = {
 "C17": ("E+B", "exhaustive operand-pair/triple enumeration of every field against a carry-less reference + explicit-state BFS over ReedSolomonEncoder.Encode histories (state = cached generator list read through a hook)",
         "Every operand pair of every Galois field the library constructs (and every triple for sizes <= 256) is executed on the real code and compared with an independent reference; polynomial division is enumerated over all divisors/dividends up to a stated degree; the Reed-Solomon encoder is explored as a state machine (BFS to a fixpoint over request orders, exact state key) with syndromes, reference remainder and cache contents checked in every state. Field laws are finite statements, so exhaustive enumeration decides them outright; the unbounded parts (polynomial degree, data length) are covered to stated bounds.",
         "Trusted: the reference carry-less multiplication in harness/checks/c17.go. Polynomial sweeps are bounded (coefficient counts in evidence.bounds); GF(1024)/GF(4096) associativity follows from equality with the reference ring and is not enumerated.",
         "4.C17"),
 "C18": ("B", "explicit-state BFS over BitList operation sequences (exact concrete state key via hook, clone-based successors), every observer compared with a []bool model after every transition",
         "All operation sequences up to the stated depth from the empty list, from NewBitList(n) and from lists pre-filled to within k bits of every internal growth and word boundary are executed on the real BitList; Len, every GetBit, GetBytes and the drained IterateBytes channel are compared with a boolean-slice model in every reached state, and the iterator goroutine must be gone. The sequence space is what unit tests cannot sample; bounded exhaustive search over it with an exact state key is the natural decision procedure.",
         "Trusted: the []bool model and packing in harness/checks/c18.go; hooks VerifBitListState/VerifBitListClone (read/copy only). Bounds (depth, k) in evidence.bounds.",
         "4.C18"),
}
pending_reason = "check not built yet in this round (planned, see DESIGN.md section 4); not claimed until its explorer exists and passes on the unchanged tree"

checks = []
for i in ids:
    if i not in claimed: continue
    eng, tech, text, note, ref = claimed[i]
    checks.append({
        "property_id": i,
        "quick_cmd": f"./check.sh {i} --tier quick",
        "thorough_cmd": f"./check.sh {i} --tier thorough",
        "evidence_file": f"/verif/evidence/{i}.json",
        "replay_cmd_template": f"./check.sh {i} --replay {{path}}",
        "engine": eng,
        "level_claimed": {"category": "model_checking", "text": text, "design_ref": ref},
        "level_note": note,
        "technique": tech,
    })
m = {
 "version": 1,
 "setup_cmd": "./setup.sh",
 "hooks": {
   "guard": "verif",
   "enable": "go build -tags verif -overlay <generated>: every /verif/hooks/<pkg>_zz_verif.go is mapped to /repo/<pkg>/zz_verif.go (added files only, each carrying //go:build verif); for C16 additionally mechanically rewritten copies of the current utils/qr sources (tag verifsched). Nothing is committed to /repo for instrumentation.",
   "baseline_off_cmd": "cd /repo && GOFLAGS=-mod=mod GOPROXY=off GOSUMDB=off GOTOOLCHAIN=local go test -json -vet=off -count=1 -timeout 25m ./...",
   "source_commits": [],
   "add_only": True,
 },
 "engines": [
   {"name": "E", "path": "harness/checks", "serves_properties": [i for i in ids if i in claimed and "E" in claimed[i][0]], "kind_free_text": "bounded exhaustive input/configuration enumeration of the real encoders against independent reference decoders"},
   {"name": "B", "path": "harness/checks", "serves_properties": [i for i in ids if i in claimed and "B" in claimed[i][0]], "kind_free_text": "explicit-state breadth-first search over operation sequences of real objects, exact state key via export hooks"},
   {"name": "S", "path": "harness/sched", "serves_properties": [i for i in ids if i in claimed and "S" in claimed[i][0]], "kind_free_text": "stateless schedule exploration (controlled cooperative scheduler, iterative preemption bounding) of the instrumented real code"},
 ],
 "checks": checks,
 "not_applicable": [{"property_id": i, "reason": pending_reason} for i in ids if i not in claimed],
 "notes": "Exit protocol: 0 held / 1 VIOLATION / 2 check broken. Known findings: /verif/known_findings.json.",
}
json.dump(m, open(f"{V}/MANIFEST.json", "w"), indent=1)
print("claimed:", [c["property_id"] for c in checks])
