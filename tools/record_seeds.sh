#!/bin/bash
# record_seeds.sh: for every seed under /tmp/wt/out re-verify it in a scratch worktree and run the target checks;
# copies patch/demo/README into /verif/seeded/<id>/ and writes meta.json (verdict lines taken from the run).
declare -A CHECKS=(
 [C01a]="C01" [C01b]="C01" [C02a]="C02" [C02b]="C02 C12" [C03a]="C03" [C03b]="C03" [C04a]="C04" [C04b]="C04 C12"
 [C05a]="C05" [C05b]="C05 C14" [C06a]="C06" [C06b]="C06 C10" [C07a]="C07" [C07b]="C07 C15" [C08a]="C08" [C08b]="C08"
 [C09a]="C09" [C09b]="C09" [C10a]="C10" [C10b]="C10" [C11a]="C11" [C11b]="C11 C07" [C12a]="C12 C04" [C12b]="C12"
 [C13a]="C13" [C13b]="C13" [C14a]="C14" [C14b]="C14 C06" [C15a]="C15 C01" [C15b]="C15" [C16a]="C16" [C16b]="C16"
 [C17a]="C17" [C17b]="C17 C15" [C18a]="C18" [C18b]="C18"
 [C01c]="C01" [C01d]="C01 C15" [C02c]="C02" [C02d]="C02 C15" [C03c]="C03" [C03d]="C03" [C04c]="C15 C04" [C04d]="C04"
 [C09c]="C09" [C09d]="C09" [C10c]="C10 C04" [C10d]="C10" [C11c]="C11 C15" [C11d]="C11 C15" [C12c]="C12 C02" [C12d]="C12 C10"
 [C05c]="C05" [C05d]="C05 C10" [C06c]="C06 C15" [C06d]="C06 C15" [C07c]="C07" [C07d]="C07" [C08c]="C08" [C08d]="C08"
 [C17c]="C17 C15" [C17d]="C17" [C18c]="C18" [C18d]="C18"
 [C01e]="C01 C15" [C01f]="C01 C10" [C02e]="C02 C15" [C02f]="C02 C12" [C03e]="C03 C15" [C03f]="C03" [C04e]="C04 C15" [C04f]="C04"
 [C09e]="C09" [C09f]="C09" [C10e]="C10" [C10f]="C10 C01" [C12e]="C12 C10" [C12f]="C12 C03" [C13e]="C13 C15" [C13f]="C13"
 [C16e]="C16" [C16f]="C16" [C16g]="C16" [C16h]="C16"
 [C06e]="C11 C06" [C06f]="C06 C10" [C07e]="C07 C15" [C07f]="C07" [C08e]="C08 C15" [C08f]="C08" [C11e]="C11 C15" [C11f]="C11"
 [C14e]="C14 C15" [C14f]="C14 C09" [C15e]="C15 C03" [C15f]="C15 C11" [C17e]="C17 C10" [C17f]="C17" [C18e]="C18" [C18f]="C18" [C05e]="C05" [C05f]="C05"
 [C16i]="C16" [C16j]="C16" [C16k]="C16" [C16l]="C16"
 [C01g]="C01" [C01h]="C01 C10" [C02g]="C02" [C02h]="C02 C10" [C03g]="C03" [C03h]="C03" [C04g]="C04" [C04h]="C04"
 [C05g]="C05" [C05h]="C05 C10" [C06g]="C06" [C06h]="C06 C11" [C07g]="C07 C14" [C07h]="C07 C10" [C08g]="C08 C10" [C08h]="C08"
 [C09g]="C09 C15" [C09h]="C09" [C10g]="C10 C18" [C10h]="C10 C05" [C11g]="C11" [C11h]="C11" [C12g]="C12" [C12h]="C12"
 [C13g]="C13" [C13h]="C13" [C14g]="C14" [C14h]="C14 C05" [C15g]="C15" [C15h]="C15 C02" [C16m]="C16" [C16n]="C16"
 [C17g]="C17" [C17h]="C17" [C18g]="C18" [C18h]="C18"
 [C01i]="C01" [C01j]="C01" [C02i]="C02" [C02j]="C02" [C03i]="C03" [C03j]="C03" [C04i]="C04" [C04j]="C04 C13"
 [C05i]="C05 C10" [C05j]="C05 C14" [C06i]="C06 C15" [C06j]="C06 C10" [C07i]="C07" [C07j]="C07" [C08i]="C08 C10" [C08j]="C08"
 [C09i]="C09" [C09j]="C09" [C10i]="C10" [C10j]="C10" [C11i]="C11 C07" [C11j]="C11" [C12i]="C12 C16" [C12j]="C12 C16"
 [C13i]="C13" [C13j]="C13" [C14i]="C14 C07" [C14j]="C14 C15" [C15i]="C15" [C15j]="C15" [C16o]="C16" [C16p]="C16"
 [C17i]="C17 C15" [C17j]="C17" [C18i]="C18" [C18j]="C18 C16"
 [C01k]="C01 C18" [C01l]="C01" [C02k]="C02 C16" [C02l]="C02" [C03k]="C03" [C03l]="C03" [C04k]="C04" [C04l]="C04" [C05k]="C05 C10" [C05l]="C05 C10" [C06k]="C06 C16" [C06l]="C06"
 [C07k]="C07" [C07l]="C07" [C08k]="C08 C10" [C08l]="C08" [C09k]="C09" [C09l]="C09" [C10k]="C10" [C10l]="C10" [C11k]="C11" [C11l]="C11" [C12k]="C12 C16" [C12l]="C12"
 [C13k]="C13" [C13l]="C13" [C14k]="C14" [C14l]="C14" [C15k]="C15" [C15l]="C15" [C16q]="C16" [C16r]="C16" [C17k]="C17" [C17l]="C17" [C18k]="C18" [C18l]="C18"
 [C01m]="C01 C17" [C01n]="C01" [C02m]="C16 C02" [C02n]="C02" [C03m]="C03" [C03n]="C03" [C04m]="C04 C18" [C04n]="C04" [C09m]="C09" [C09n]="C09" [C11m]="C11 C15" [C11n]="C11" [C13m]="C13" [C13n]="C13" [C18m]="C18" [C18n]="C18"
 [C05m]="C05" [C05n]="C05 C10" [C07m]="C07" [C07n]="C07" [C12m]="C12 C17" [C12n]="C12" [C14m]="C14" [C14n]="C14" [C17m]="C16 C17" [C17n]="C17" [C10m]="C10" [C10n]="C10 C05"
 [C06m]="C06" [C06n]="C06" [C08m]="C08 C10" [C08n]="C08 C10" [C15m]="C15" [C15n]="C15 C03"
 [C13c]="C13" [C13d]="C13" [C14c]="C14" [C14d]="C14 C07" [C15c]="C15" [C15d]="C15" [C16c]="C16" [C16d]="C16"
)
for s in "$@"; do
  d=/verif/seeded/$s; mkdir -p $d
  cp /tmp/wt/out/$s/patch.diff /tmp/wt/out/$s/demo_test.go $d/ 2>/dev/null
  cp /tmp/wt/out/$s/README.md $d/README.md 2>/dev/null
  LINES_OUT=8 /verif/tools/try_seed.sh /tmp/wt/out/$s ${CHECKS[$s]} > $d/run.log 2>&1
  python3 - "$s" "${CHECKS[$s]}" <<'PY'
import sys, json, re
s, checks = sys.argv[1], sys.argv[2].split()
log = open(f'/verif/seeded/{s}/run.log', errors='replace').read()
def section(a, b):
    m = re.search(re.escape(a) + r'(.*?)' + re.escape(b), log, re.S)
    return m.group(1) if m else ''
clean = 'ok' in section('-- demo on clean tree:', '-- build + existing tests')
suite = section('-- build + existing tests with the change:', '-- demo with the change:')
suite_ok = 'FAIL' not in suite and 'rc=0' in suite
demo_fails = 'FAIL' in section('-- demo with the change:', '== check')
det = {}
for c in checks:
    m = re.search(r'== check %s on the changed tree:(.*?)   exit=(\d+)' % c, log, re.S)
    if m:
        body, code = m.group(1), int(m.group(2))
        case = re.search(r'case: (.*)', body); what = re.search(r'what: (.*)', body)
        det[c] = {'exit': code, 'first_case': case.group(1)[:200] if case else '', 'what': what.group(1)[:240] if what else ''}
readme = open(f'/verif/seeded/{s}/README.md').read() if __import__('os').path.exists(f'/verif/seeded/{s}/README.md') else ''
OVERRIDE = {'C17m': 'C16 (written against C17; an unlocked read of the generator cache: it needs concurrent callers)', 'C02m': 'C16 (written against C02; it needs concurrent callers)', 'C08i': 'C10 (written against C08, which is conditional on acceptance; the change refuses long digit strings)', 'C12i': 'C16 (written against C12; it needs concurrent callers)', 'C12j': 'C16 (written against C12; it needs concurrent callers)', 'C14i': 'C07 (written against C14: the check character and CheckSum() agree with the drawn characters, which spell the wrong text)', 'C14j': 'C15 (and C07; written against C14: a state leak after a refused call)', 'C06j': 'C10 (written against C06: Encode of the empty string panics)', 'C08g': 'C10 (written against C08, which is conditional on acceptance; the change makes Encode panic)', 'C06e': 'C11 (written against C06, which it does not violate as stated; it drops the colour scheme)', 'C15f': 'C15 (and C11)'}
meta = {'id': s, 'breaks_property': OVERRIDE.get(s, s[:3]), 'source': 'independent sub-agent given only the property text and a scratch worktree of /repo' + (' (second round: asked for cooperating sites, state leaks, rare arithmetic, feature interactions, interleavings; told which first-round changes to avoid)' if s[3] in 'cdefghijklmnopqr' else ''),
        'confirmed': {'patch_applies_to_HEAD': True, 'existing_suite_passes_with_change': suite_ok, 'demo_passes_on_clean_tree': clean, 'demo_fails_with_change': demo_fails},
        'what_i_ran': 'tools/try_seed.sh (scratch worktree: go build ./..., go test -count=1 ./..., the demo with and without the change; then ./check.sh <ID> --tier quick with VERIF_REPO=<worktree>)',
        'checks_run': det,
        'needs_to_manifest': 'see README.md (written by the author of the change)'}
json.dump(meta, open(f'/verif/seeded/{s}/meta.json', 'w'), indent=1)
print(s, {c: d['exit'] for c, d in det.items()}, 'suite_ok', suite_ok, 'clean', clean, 'demo_fails', demo_fails)
PY
done
