#!/usr/bin/env python3
"""Applies each own seeded change of mutants/specs.py in a scratch worktree, confirms that the library
builds and the repository's tests still pass, runs the expected checks (quick tier) against that tree and
records who reports it. Usage: run_mutants.py [name-prefix ...]; results in mutants/RESULTS.md"""
import os, subprocess, sys, json, shutil
sys.path.insert(0, '/verif/mutants')
from specs import M
env = dict(os.environ, GOFLAGS='-mod=mod', GOPROXY='off', GOSUMDB='off', GOTOOLCHAIN='local')
sel = sys.argv[1:]
rows = []
ALL = os.environ.get('ALLCHECKS')
for name, f, old, new, checks, note in M:
    if sel and not any(name.startswith(s) for s in sel): continue
    wt = f'/tmp/wt/mut.{name}'
    subprocess.run(['git','-C','/repo','worktree','remove','--force',wt],capture_output=True)
    subprocess.run(['git','-C','/repo','worktree','add','-q','--detach',wt,'HEAD'],check=True)
    try:
        p = os.path.join(wt, f); s = open(p).read()
        if s.count(old) != 1:
            rows.append((name, 'SPEC-ERROR: pattern occurs %d times' % s.count(old), '', note)); print(rows[-1]); continue
        open(p,'w').write(s.replace(old, new))
        b = subprocess.run('go build ./... && go vet ./... >/dev/null 2>&1; go test -count=1 ./... 2>&1 | grep -v "^ok\\|no test files"', shell=True, cwd=wt, env=env, capture_output=True, text=True)
        suite = 'pass' if b.stdout.strip()=='' and b.returncode in (0,1) and 'FAIL' not in b.stdout and b.stderr.strip()=='' else 'FAIL: '+(b.stdout+b.stderr)[:200]
        res = {}
        run = checks if not ALL else [f'C{i:02d}' for i in range(1,19)]
        for c in (run or ['C%02d'%i for i in range(1,19)]):
            out = f'/tmp/wt/mutout.{name}'
            os.makedirs(out, exist_ok=True)
            r = subprocess.run(['timeout','1500','/verif/check.sh',c,'--tier','quick'], env=dict(env, VERIF_REPO=wt, VERIF_OUT=out), capture_output=True, text=True)
            first = [l for l in r.stdout.splitlines() if l.startswith('  case:')]
            res[c] = (r.returncode, first[0].strip() if first else '')
            shutil.rmtree(out, ignore_errors=True)
        rows.append((name, suite, res, note)); print(name, suite, res, flush=True)
    finally:
        subprocess.run(['git','-C','/repo','worktree','remove','--force',wt],capture_output=True)
json.dump(rows, open('/verif/mutants/last_run.json','w'), indent=1)
