#!/bin/bash
# try_seed.sh <seed dir with patch.diff + demo_test.go> <check id>...
# 1. in a scratch worktree: patch applies, library builds, existing tests pass, demo fails with / passes without the change
# 2. applies the patch to /repo, runs the given checks (quick), and reverts /repo.
export GOFLAGS=-mod=mod GOPROXY=off GOSUMDB=off GOTOOLCHAIN=local LINES_OUT=${LINES_OUT:-12}
D=$(readlink -f "$1"); shift
WT=/tmp/wt/verify.$$
git -C /repo worktree add -q --detach $WT HEAD || exit 9
cleanup() { git -C /repo worktree remove --force $WT 2>/dev/null; }
trap cleanup EXIT
place=$(grep -m1 -o 'place in: *[^ ]*' $D/demo_test.go | sed 's/place in: *//')
run=$(grep -m1 'run:' $D/demo_test.go | sed 's/.*run: *//')
[ -n "$place" ] || place=.
echo "== demo placed in '$place', run: $run"
cd $WT
cp $D/demo_test.go $WT/$place/zz_seed_demo_test.go
echo "-- demo on clean tree:"; (eval "$run" 2>&1 | tail -3)
clean_rc=${PIPESTATUS[0]}
git apply $D/patch.diff || { echo "PATCH DOES NOT APPLY"; exit 8; }
echo "-- build + existing tests with the change:"
go build ./... && rm $WT/$place/zz_seed_demo_test.go && go test -count=1 ./... 2>&1 | grep -v "^ok\|no test files" | head; echo "   (suite rc=$?)"
cp $D/demo_test.go $WT/$place/zz_seed_demo_test.go
echo "-- demo with the change:"; (eval "$run" 2>&1 | tail -6)
cd ${VERIF_HOME:-/verif}
rm -f $WT/$place/zz_seed_demo_test.go
OUT=/tmp/wt/seedout.$$; mkdir -p $OUT
for id in "$@"; do
  echo "== check $id on the changed tree:"
  VERIF_REPO=$WT VERIF_OUT=$OUT timeout 1200 ./check.sh $id --tier ${TIER:-quick} 2>&1 | grep -v "^  \(sched\|race\|findings\|render\|scale\|gf\|poly\|bitlist\)" | cut -c1-260 | sed -n 1,${LINES_OUT}p
  echo "   exit=${PIPESTATUS[0]}"
done
rm -rf $OUT
