#!/bin/sh
# validates MANIFEST.json and every evidence file against the schemas
python3-vt - <<'PY'
import json,jsonschema,glob,sys
ok=True
jsonschema.validate(json.load(open('/verif/MANIFEST.json')), json.load(open('/root/.vp/MANIFEST.schema.json')))
es=json.load(open('/root/.vp/EVIDENCE.schema.json'))
for f in sorted(glob.glob('/verif/evidence/*.json')):
    try: jsonschema.validate(json.load(open(f)), es)
    except Exception as e: ok=False; print('INVALID',f,str(e)[:300])
print('valid' if ok else 'INVALID')
PY
