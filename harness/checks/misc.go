package checks

import (
	"fmt"
	"os"
	"time"

	"verif/core"
)

// HangLimit is the per-case budget of the watchdog. Cases normally take < 0.2 s.
var HangLimit = 180 * time.Second

// oneshots are operations that can be run in a fresh process (C15).
var oneshots = map[string]func() string{}

var oneshotInit = func() {}

// oneshotPrefix maps a name prefix to a parametrised one-shot operation.
var oneshotPrefix = map[string]func(arg string) string{}

// Oneshot runs one registered operation and prints its observation.
func Oneshot(name string) {
	oneshotInit()
	for pre, g := range oneshotPrefix {
		if len(name) > len(pre) && name[:len(pre)] == pre {
			fmt.Print(g(name[len(pre):]))
			return
		}
	}
	f, ok := oneshots[name]
	if !ok {
		fmt.Fprintln(os.Stderr, "unknown oneshot", name)
		os.Exit(2)
	}
	fmt.Print(f())
}

// repoDir is the tree under test.
func repoDir() string {
	if d := os.Getenv("VERIF_REPO"); d != "" {
		return d
	}
	return "/repo"
}

// foreignWarmup: in every second shard process the other 2D families are encoded once before the
// enumeration starts (as ordinary cases of the shard's call sequence, so that a finding that needs
// them is reproduced through the recorded history / the shard-prefix replay). Helper packages are
// shared between the families (Galois fields, Reed-Solomon encoders, bit lists): state that one
// family leaves there must not change what another family draws. The other shards start cold.
func foreignWarmup(c *core.Ctx, own string) {
	if c.Shard%2 != 0 {
		return
	}
	for _, w := range []core.Case{
		{Fam: "qr", S: []byte("WARM UP 123"), P: []int{1, 0}},
		{Fam: "qr", S: []byte("warm up, bytes"), P: []int{3, 3}},
		{Fam: "dm", S: []byte("warm up 123456")},
		{Fam: "az", S: []byte("Warm up 123."), P: []int{33, 0}},
		{Fam: "az", S: []byte(Filler("Warm up 8-bit words ", 90)), P: []int{33, 0}},
		{Fam: "pdf", S: []byte("warm up 1234567890123"), P: []int{2}},
	} {
		if w.Fam == own {
			continue
		}
		w := w
		Exec(c, &w)
	}
}
