package checks

import (
	"fmt"
	"os"
	"time"
)

// HangLimit is the per-case budget of the watchdog. Cases normally take < 0.2 s.
var HangLimit = 180 * time.Second

// oneshots are operations that can be run in a fresh process (C15).
var oneshots = map[string]func() string{}

var oneshotInit = func() {}

// oneshotPrefix maps a name prefix to a parametrised one-shot operation.
var oneshotPrefix = map[string]func(arg string) string{}

// Oneshot runs one registered operation and prints its observation.
func Oneshot(name string) {
	oneshotInit()
	for pre, g := range oneshotPrefix {
		if len(name) > len(pre) && name[:len(pre)] == pre {
			fmt.Print(g(name[len(pre):]))
			return
		}
	}
	f, ok := oneshots[name]
	if !ok {
		fmt.Fprintln(os.Stderr, "unknown oneshot", name)
		os.Exit(2)
	}
	fmt.Print(f())
}

// repoDir is the tree under test.
func repoDir() string {
	if d := os.Getenv("VERIF_REPO"); d != "" {
		return d
	}
	return "/repo"
}
