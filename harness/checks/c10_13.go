package checks

import (
	"fmt"
	"strings"

	"verif/core"
)

// boundaryAlpha: characters at the edges of every symbology's alphabet.
var boundaryAlpha = []string{"\x00", "\x1f", " ", "*", "+", "-", "0", "9", "A", "Z", "a", "\x7f", "\x80", "ñ", "ô", "õ", "€", "\xff",
	// characters of Unicode classes that an ASCII-only alphabet must not absorb: Arabic-Indic and
	// fullwidth digits, fullwidth letter, no-break space
	"٣", "３", "Ａ", "\u00a0",
	// runes whose low 8 (7) bits are a digit or a capital letter: a table indexed by a truncated rune must not absorb them
	"İ", "Ł", "°", "Á"}

func c10Body(c *core.Ctx) {
	// 1. the enumerations of C01-C08 pass through the same three-valued acceptance oracle
	enumC128(c, 5, 2, 4)
	enumEAN(c, false, false)
	enumC39C93(c, []string{"c39", "c93"}, 2)
	enumC08(c, pick(c, 4, 5), pick(c, 5, 6))
	enumDM(c, 4, c.Thorough())
	enumQR(c, pick(c, 2, 3), c.Thorough(), false)
	enumAztec(c, 3, false)
	enumPDF(c, 4, 3, false)
	// 2. boundary alphabet, every entry point and flag combination
	bl := pick(c, 3, 4)
	Words(boundaryAlpha, 0, bl, func(w string, n int) bool {
		b := []byte(w)
		Run(c, &core.Case{Fam: "c128", S: b, P: []int{0}})
		Run(c, &core.Case{Fam: "c128", S: b, P: []int{1}})
		Run(c, &core.Case{Fam: "ean", S: b})
		for ck := 0; ck <= 1; ck++ {
			for full := 0; full <= 1; full++ {
				Run(c, &core.Case{Fam: "c39", S: b, P: []int{ck, full}})
				Run(c, &core.Case{Fam: "c93", S: b, P: []int{ck, full}})
			}
		}
		Run(c, &core.Case{Fam: "codabar", S: b})
		Run(c, &core.Case{Fam: "tof", S: b, P: []int{0}})
		Run(c, &core.Case{Fam: "tof", S: b, P: []int{1}})
		Run(c, &core.Case{Fam: "tofcs", S: b})
		Run(c, &core.Case{Fam: "dm", S: b})
		Run(c, &core.Case{Fam: "az", S: b, P: []int{33, 0}})
		Run(c, &core.Case{Fam: "pdf", S: b, P: []int{0}})
		if n <= 3 {
			for lvl := 0; lvl < 4; lvl++ {
				for mode := 0; mode < 4; mode++ {
					Run(c, &core.Case{Fam: "qr", S: b, P: []int{lvl, mode}})
				}
			}
		}
		return true
	})
	// 3. parameter domains in full
	for lv := 0; lv < 256; lv++ {
		for _, s := range []string{"", "A", "1234567890123", "\x80\x81", "ab;cd\x80ef", strings.Repeat("Z", 300)} {
			Run(c, &core.Case{Fam: "pdf", S: []byte(s), P: []int{lv}})
		}
	}
	pcts := []int{150, 400, 1000, 100000}
	for p := 0; p <= 100; p++ {
		pcts = append(pcts, p)
	}
	for layers := -40; layers <= 40; layers++ {
		for _, p := range pcts {
			for _, s := range []string{"", "A", "Hello, World. 12345", "\x80\x81\x82"} {
				Run(c, &core.Case{Fam: "az", S: []byte(s), P: []int{p, layers}})
			}
		}
	}
	// 3b. runs of non-ASCII characters (digit runs drive numeric compaction / code set C)
	for _, ch := range []string{"٣", "３", "Ａ", "é", "\u00a0"} {
		for _, n := range []int{1, 2, 4, 5, 6, 12, 13, 14, 20, 44, 45} {
			run := strings.Repeat(ch, n)
			for _, s := range []string{run, "AB" + run, run + "12", "12" + run + "cd"} {
				b := []byte(s)
				Run(c, &core.Case{Fam: "pdf", S: b, P: []int{0}})
				Run(c, &core.Case{Fam: "pdf", S: b, P: []int{4}})
				Run(c, &core.Case{Fam: "dm", S: b})
				Run(c, &core.Case{Fam: "az", S: b, P: []int{33, 0}})
				Run(c, &core.Case{Fam: "qr", S: b, P: []int{1, 0}})
				Run(c, &core.Case{Fam: "qr", S: b, P: []int{1, 1}})
				Run(c, &core.Case{Fam: "c128", S: b, P: []int{1}})
				Run(c, &core.Case{Fam: "tof", S: b, P: []int{1}})
				Run(c, &core.Case{Fam: "ean", S: b})
			}
		}
	}
	// 4. far beyond capacity
	big := func(al string, n int) []byte { return []byte(Filler(al, n)) }
	Run(c, &core.Case{Fam: "c128", S: big("0123456789", 1000), P: []int{1}})
	Run(c, &core.Case{Fam: "c128", S: big("Ab1~\x01", 81), P: []int{0}})
	Run(c, &core.Case{Fam: "c128", S: big("Ab1~\x01", 80), P: []int{0}})
	Run(c, &core.Case{Fam: "ean", S: big("0123456789", 1000)})
	Run(c, &core.Case{Fam: "c39", S: big("ABC123 -.", 3000), P: []int{1, 0}})
	Run(c, &core.Case{Fam: "c93", S: big("ABC123 -.", 3000), P: []int{1, 1}})
	Run(c, &core.Case{Fam: "codabar", S: []byte("A" + Filler("0123456789-$:/.+", 3000) + "B")})
	Run(c, &core.Case{Fam: "tof", S: big("0123456789", 3000), P: []int{1}})
	Run(c, &core.Case{Fam: "tof", S: big("0123456789", 3001), P: []int{0}})
	Run(c, &core.Case{Fam: "tofcs", S: big("0123456789", 3001)})
	Run(c, &core.Case{Fam: "dm", S: big("Abc\x80\x00 z", 20000)})
	Run(c, &core.Case{Fam: "dm", S: big("0123456789", 3116)})
	Run(c, &core.Case{Fam: "dm", S: big("0123456789", 3117)})
	for lvl := 0; lvl < 4; lvl++ {
		Run(c, &core.Case{Fam: "qr", S: big("0123456789", 30000), P: []int{lvl, 0}})
		Run(c, &core.Case{Fam: "qr", S: big("0123456789", 30000), P: []int{lvl, 1}})
		Run(c, &core.Case{Fam: "qr", S: big("ABC $%*", 30000), P: []int{lvl, 2}})
		Run(c, &core.Case{Fam: "qr", S: byteFiller(30000), P: []int{lvl, 3}})
		Run(c, &core.Case{Fam: "qr", S: byteFiller(70000), P: []int{lvl, 0}})
	}
	Run(c, &core.Case{Fam: "az", S: byteFiller(9000), P: []int{33, 0}})
	Run(c, &core.Case{Fam: "az", S: big("ABCDEFGH ", 20000), P: []int{0, 0}})
	Run(c, &core.Case{Fam: "az", S: big("ABCDEFGH ", 3000), P: []int{0, 0}})
	Run(c, &core.Case{Fam: "az", S: big("0123456789", 4000), P: []int{10, 32}})
	for _, lv := range []int{0, 8} {
		Run(c, &core.Case{Fam: "pdf", S: big("ABCDEFGH ", 30000), P: []int{lv}})
		Run(c, &core.Case{Fam: "pdf", S: big("0123456789", 30000), P: []int{lv}})
		Run(c, &core.Case{Fam: "pdf", S: byteFiller(12000), P: []int{lv}})
	}
	longSymbols(c, "c39", "c93", "codabar", "tof")
	// 4b. dense sweeps beyond capacity: oversize content must be refused whatever integer width an
	// implementation counts bits, codewords or characters in
	farQR(c, []int{0, 3})
	for n := 81; n <= 700; n++ {
		Run(c, &core.Case{Fam: "c128", S: big("Ab1~\x01", n), P: []int{n % 2}})
		Run(c, &core.Case{Fam: "c128", S: big("0123456789", 2*n), P: []int{n % 2}})
	}
	for n := 1559; n <= 3300; n++ {
		Run(c, &core.Case{Fam: "dm", S: big("Abc z", n)})
		Run(c, &core.Case{Fam: "dm", S: big("0123456789", 2*n)})
	}
	for _, w := range []int{1 << 15, 1 << 16, 1 << 17} {
		for n := w - 3; n <= w+3; n++ {
			Run(c, &core.Case{Fam: "dm", S: big("Abc z", n)})
			Run(c, &core.Case{Fam: "dm", S: big("0123456789", n)})
			Run(c, &core.Case{Fam: "pdf", S: big("ABCDEFGH ", n), P: []int{0}})
			Run(c, &core.Case{Fam: "pdf", S: big("0123456789", n), P: []int{0}})
		}
	}
	for _, w := range []int{192239, 96119} { // 2^16 and 2^15 codewords of numeric compaction (44 digits -> 15 codewords)
		for n := w - 8; n <= w+8; n++ {
			Run(c, &core.Case{Fam: "pdf", S: big("0123456789", n), P: []int{0}})
		}
	}
	if c.Thorough() {
		// byte compaction of oversize data is quadratic in the library (37 s for 78 643 bytes): thorough tier only
		for _, w := range []int{39321, 78643} { // 2^15 and 2^16 codewords of byte compaction (6 bytes -> 5 codewords)
			for n := w - 1; n <= w+1; n++ {
				Run(c, &core.Case{Fam: "pdf", S: byteFiller(n), P: []int{0}})
			}
		}
	}
	for _, w := range []int{4096, 6553, 8192, 13107, 16384} { // 2^15 / 2^16 bits of Aztec binary, upper-case and digit payloads
		for n := w - 3; n <= w+3; n++ {
			Run(c, &core.Case{Fam: "az", S: byteFiller(n), P: []int{0, 0}})
			Run(c, &core.Case{Fam: "az", S: big("ABCDEFGH ", n), P: []int{0, 0}})
			Run(c, &core.Case{Fam: "az", S: big("0123456789", n), P: []int{0, 0}})
		}
	}
	c.R.Bound("far_oversize", "QR: every length from capacity(40)+2 to beyond the 16-bit wrap of the payload bit count, levels L and H; Code 128: every length 81..700 (digits to 1400); DataMatrix: every length 1559..3300 (digits to 6600); windows around 2^15, 2^16, 2^17 characters / codewords / bits for DataMatrix, PDF417 and Aztec")
	c.R.Bound("reused", "the quick-tier enumerations of C01-C08 (every explored call passes the same acceptance oracle)")
	c.R.Bound("boundary_words", fmt.Sprintf("all words <= %d over %q for every entry point and flag combination (QR: <= 3 x 4 levels x 4 modes)", bl, boundaryAlpha))
	c.R.Bound("parameters", "PDF417 security level 0..255 x 6 contents; Aztec layers -40..40 x percentages {0..100,150,400,1000,100000} x 4 payloads")
	c.R.Bound("capacity", "cap/cap+1 of every QR version x level x mode, every DataMatrix size, Aztec layer requests (bisection), PDF417 length grid, Code 128 80/81; one input far beyond capacity per entry point")
	for _, f := range []string{"c128", "ean", "c39", "c93", "codabar", "tof", "tofcs", "dm", "qr", "az", "pdf"} {
		c.R.State("entry point " + f)
	}
	c.R.Sample(map[string]any{"entry": "pdf417.Encode", "data": "A", "securityLevel": 200, "expect": "nil barcode, non-nil error, no panic"})
	c.R.Sample(map[string]any{"entry": "code128.Encode", "content": "ñ1ñ234", "expect": "returns; accepted because every rune is in the 132-symbol alphabet"})
}

func c12Body(c *core.Ctx) {
	enumQR(c, pick(c, 2, 3), false, c.Thorough())
	enumPDF(c, pick(c, 4, 5), pick(c, 3, 4), c.Thorough())
	enumDM(c, 4, c.Thorough())
	enumAztec(c, 3, c.Thorough())
	// Aztec percentage grid: every percentage 0..100 (+150, 400) x automatic and explicit layers x payload lengths
	pcts := []int{150, 400}
	for p := 0; p <= 100; p++ {
		pcts = append(pcts, p)
	}
	layers := []int{0, -4, -2, 1, 3, 5, 9, 12, 23, 27, 32}
	if c.Thorough() {
		layers = nil
		for l := -4; l <= 32; l++ {
			layers = append(layers, l)
		}
	}
	for _, p := range pcts {
		for _, l := range layers {
			for _, n := range []int{1, 2, 7, 9, 16, 21, 40, 64, 100, 250, 600} {
				for fi, fill := range azFills {
					if fi == 3 {
						continue
					}
					Run(c, &core.Case{Fam: "az", S: fill(n), P: []int{p, l}})
				}
			}
		}
	}
	c.R.Bound("qr", "class words, all single bytes, capacity grid over 40 versions x 4 levels x modes")
	c.R.Bound("pdf417", "class words, byte pairs, macro words, length grid x security levels")
	c.R.Bound("aztec", "C03 enumeration plus every percentage 0..100,150,400 x layer requests x 8 lengths x 3 fillers")
	c.R.Bound("datamatrix", "class words, byte pairs, codeword grid over 24 sizes")
	c.R.Sample(map[string]any{"encoder": "aztec", "payload": "16 upper-case letters", "pct": 77, "layers": 0, "oracle": "check words x word size >= 77% of the decoded data bits"})
	c.R.Sample(map[string]any{"encoder": "qr", "content": "cap(7-Q) alphanumeric characters", "oracle": "format word names Q; de-interleaving with ISO Table 9 for (7,Q) leaves zero syndromes in every block"})
}

func c13Body(c *core.Ctx) {
	// contents with equal payload bit counts in different modes that need different versions, one
	// after the other in one process (both orders): the second must still get its smallest version
	coll := qrCollisionPairs(pick(c, 20, 40))
	for _, pr := range coll {
		for _, o := range [][2]call{{pr[0], pr[1]}, {pr[1], pr[0]}} {
			if !c.Mine() {
				continue
			}
			Exec(c, &core.Case{Fam: "qr", S: o[0].s, P: o[0].p})
			Exec(c, &core.Case{Fam: "qr", S: o[1].s, P: o[1].p})
			// and the same through Auto
			Exec(c, &core.Case{Fam: "qr", S: o[0].s, P: []int{o[0].p[0], 0}})
			Exec(c, &core.Case{Fam: "qr", S: o[1].s, P: []int{o[1].p[0], 0}})
		}
	}
	c.R.Bound("qr_collision_pairs", fmt.Sprintf("%d cross-mode pairs with equal payload bits and different minimal versions, executed back to back in both orders", len(coll)))
	enumQR(c, pick(c, 2, 3), false, c.Thorough())
	enumDM(c, 4, c.Thorough())
	enumPDF(c, 4, 3, c.Thorough())
	// Aztec: automatically sized symbols, then every smaller explicit request must be refused
	step := 23
	if c.Thorough() {
		step = 3
	}
	for _, p := range []int{0, 10, 23, 33, 50, 90} {
		for n := 1; n <= 1900; n += step {
			for _, fill := range azFills[:3] {
				Run(c, &core.Case{Fam: "az", S: fill(n), P: []int{p, 0}})
			}
		}
		for n := 1; n <= 64; n++ {
			for _, fill := range azFills {
				Run(c, &core.Case{Fam: "az", S: fill(n), P: []int{p, 0}})
			}
		}
	}
	Words(azClass, 1, 3, func(w string, _ int) bool {
		Run(c, &core.Case{Fam: "az", S: []byte(w), P: []int{33, 0}})
		return true
	})
	c.R.Bound("qr", "capacity grid: cap-1, cap, cap+1 (thorough: every length) x 40 versions x 4 levels x {numeric, alphanumeric, byte} in the explicit mode and in Auto")
	c.R.Bound("datamatrix", "reference codeword counts around (thorough: all of) the 24 capacities, reached five ways")
	c.R.Bound("aztec", fmt.Sprintf("automatic sizing for lengths 1..64 and 1..1900 step %d x fillers x 6 percentages; for each result all smaller explicit requests (-4..-1, 1..32) must be refused", step))
	c.R.Bound("pdf417", "length grid x levels: padding < columns, rows/columns within limits")
	c.R.Sample(map[string]any{"encoder": "qr", "content": "41 digits", "level": "L", "mode": "Auto", "expect": "version 1 (capacity 41)"})
	c.R.Sample(map[string]any{"encoder": "aztec", "payload": "60 digits", "pct": 33, "expect": "auto picks compact side s; requests for every smaller compact/full size return an error"})
}

func init() {
	as := []string{
		"small-scope bounds as recorded in coverage.bounds",
		"reference capacity models: QR Table 7/9 formulas (qrdec), DataMatrix ASCII encodation length (dmdec), Aztec/PDF417 structure read back from the symbol",
	}
	register(&Check{ID: "C10", Engine: "E", Body: c10Body,
		Rule:        "every call explored by the C01-C08 enumerations plus boundary-alphabet words, full parameter domains and beyond-capacity inputs is executed under a recover wrapper and a watchdog; oracle: returns, exactly one of (barcode, error) non-nil, and a three-valued representability predicate (must accept / must reject / unspecified) written from the property text. A state is an entry point.",
		Assumptions: append([]string{"non-termination is detected by a 180 s per-call watchdog (calls normally take < 0.2 s)", "the unspecified band of the representability predicate (empty Code 39/93 text, FNC runes in basic Code 93, Aztec/PDF417 contents between the conservative lower and upper capacity bounds) never raises an alarm"}, as...)})
	register(&Check{ID: "C12", Engine: "E", Body: c12Body, Assumptions: as,
		Rule: "on every symbol decoded in the QR, PDF417, Aztec and DataMatrix enumerations: declared level (format word / row indicators) == requested, check-codeword counts == own ISO tables with zero syndromes, Aztec check bits >= requested percentage of the decoded data bits; plus the full Aztec percentage grid 0..100"})
	register(&Check{ID: "C13", Engine: "E", Body: c13Body, Assumptions: as,
		Rule: "capacity-boundary sweeps: QR decoded version <= reference minimal version for (mode, level, length); DataMatrix decoded size == smallest size for the reference ASCII encodation length; Aztec: every explicit request smaller than the automatic result is refused (enumerated exhaustively per point); PDF417: padding < one row and rows/columns within limits"})
}
