package checks

import (
	"fmt"
	"os"
	"path/filepath"
	"regexp"
	"sort"
	"strconv"
	"strings"

	"github.com/boombuler/barcode/utils"

	"verif/core"
)

// ---------------------------------------------------------------------------
// Reference field arithmetic (independent of utils.GaloisField): carry-less
// multiplication modulo the field polynomial.

type refField struct {
	pp, size int
}

func (f refField) mul(a, b int) int {
	r := 0
	for b != 0 {
		if b&1 != 0 {
			r ^= a
		}
		b >>= 1
		a <<= 1
		if a >= f.size {
			a ^= f.pp
		}
	}
	return r
}

func (f refField) pow(a, e int) int {
	r := 1
	for ; e > 0; e-- {
		r = f.mul(r, a)
	}
	return r
}

// primitive reports whether x (=2) generates the multiplicative group.
func (f refField) primitive() bool {
	x := 1
	for i := 1; i < f.size-1; i++ {
		x = f.mul(x, 2)
		if x == 1 {
			return false
		}
	}
	return f.mul(x, 2) == 1
}

// polynomials: coefficient slices, highest degree first, normalised (no leading zeros, zero = [0]).
func rNorm(p []int) []int {
	for len(p) > 1 && p[0] == 0 {
		p = p[1:]
	}
	if len(p) == 0 {
		return []int{0}
	}
	return p
}

func (f refField) pmul(a, b []int) []int {
	out := make([]int, len(a)+len(b)-1)
	for i, x := range a {
		for j, y := range b {
			out[i+j] ^= f.mul(x, y)
		}
	}
	return rNorm(out)
}

func padd(a, b []int) []int {
	if len(a) < len(b) {
		a, b = b, a
	}
	out := append([]int(nil), a...)
	d := len(a) - len(b)
	for i, y := range b {
		out[d+i] ^= y
	}
	return rNorm(out)
}

func peq(a, b []int) bool {
	a, b = rNorm(a), rNorm(b)
	if len(a) != len(b) {
		return false
	}
	for i := range a {
		if a[i] != b[i] {
			return false
		}
	}
	return true
}

// eval evaluates p at x.
func (f refField) eval(p []int, x int) int {
	r := 0
	for _, c := range p {
		r = f.mul(r, x) ^ c
	}
	return r
}

// gen returns the reference generator polynomial of degree n: prod (x - 2^(base+i)), i<n.
func (f refField) gen(n, base int) []int {
	g := []int{1}
	for i := 0; i < n; i++ {
		g = f.pmul(g, []int{1, f.pow(2, (base+i)%(f.size-1))})
	}
	return g
}

// ---------------------------------------------------------------------------

type fieldSpec struct{ pp, size, base int }

var knownFields = []fieldSpec{
	{0x11D, 256, 0}, {0x12D, 256, 1}, {0x13, 16, 1}, {0x43, 64, 1}, {0x409, 1024, 1}, {0x1069, 4096, 1},
}

var gfCallRe = regexp.MustCompile(`NewGaloisField\(\s*([0-9a-fA-Fx]+)\s*,\s*([0-9a-fA-Fx]+)\s*,\s*([0-9a-fA-Fx]+)\s*\)`)

// scanFields finds every NewGaloisField(<const>,<const>,<const>) call in the
// current /repo sources and merges it with the list known at design time.
func scanFields() []fieldSpec {
	seen := map[fieldSpec]bool{}
	var out []fieldSpec
	add := func(f fieldSpec) {
		if !seen[f] && f.size >= 4 && f.size <= 1<<16 && f.size&(f.size-1) == 0 {
			seen[f] = true
			out = append(out, f)
		}
	}
	for _, f := range knownFields {
		add(f)
	}
	filepath.Walk(repoDir(), func(p string, info os.FileInfo, err error) error {
		if err != nil || info.IsDir() || !strings.HasSuffix(p, ".go") || strings.HasSuffix(p, "_test.go") {
			return nil
		}
		b, err := os.ReadFile(p)
		if err != nil {
			return nil
		}
		for _, m := range gfCallRe.FindAllStringSubmatch(string(b), -1) {
			a, e1 := strconv.ParseInt(m[1], 0, 32)
			s, e2 := strconv.ParseInt(m[2], 0, 32)
			c, e3 := strconv.ParseInt(m[3], 0, 32)
			if e1 == nil && e2 == nil && e3 == nil {
				add(fieldSpec{int(a), int(s), int(c)})
			}
		}
		return nil
	})
	sort.Slice(out, func(i, j int) bool {
		if out[i].size != out[j].size {
			return out[i].size < out[j].size
		}
		return out[i].pp < out[j].pp
	})
	return out
}

var gfCache = map[fieldSpec]*utils.GaloisField{}

func realField(f fieldSpec) *utils.GaloisField {
	if g, ok := gfCache[f]; ok {
		return g
	}
	g := utils.NewGaloisField(f.pp, f.size, f.base)
	gfCache[f] = g
	return g
}

// gfrow: P = [pp,size,base,a]: all operand pairs (a,b), and for size<=256 all triples (a,b,c).
func evalGFRow(c *core.Ctx, cs *core.Case) {
	f := fieldSpec{cs.P[0], cs.P[1], cs.P[2]}
	a := cs.P[3]
	rf := refField{f.pp, f.size}
	var gf *utils.GaloisField
	if p, w := Safely(func() { gf = realField(f) }); p {
		c.Fail("C17", cs, "NewGaloisField panicked: %s", w)
		return
	}
	fail := func(format string, args ...any) { c.Fail("C17", cs, format, args...) }
	var pairs, triples int64
	p, w := Safely(func() {
		if a != 0 {
			inv := gf.Invers(a)
			if inv < 0 || inv >= f.size || gf.Multiply(a, inv) != 1 || rf.mul(a, inv) != 1 {
				fail("a*Invers(a) != 1: a=%d Invers=%d", a, inv)
				return
			}
		}
		for b := 0; b < f.size; b++ {
			pairs++
			m := gf.Multiply(a, b)
			if want := rf.mul(a, b); m != want {
				fail("Multiply(%d,%d)=%d, reference %d", a, b, m, want)
				return
			}
			if m2 := gf.Multiply(b, a); m2 != m {
				fail("Multiply not commutative: (%d,%d)=%d (%d,%d)=%d", a, b, m, b, a, m2)
				return
			}
			if s := gf.AddOrSub(a, b); s != a^b {
				fail("AddOrSub(%d,%d)=%d", a, b, s)
				return
			}
			if b != 0 {
				var q int
				if pp, ww := Safely(func() { q = gf.Divide(a, b) }); pp {
					fail("Divide(%d,%d) panicked: %s", a, b, firstLine(ww))
					return
				}
				if q < 0 || q >= f.size || rf.mul(q, b) != a {
					fail("Divide(%d,%d)=%d but %d*%d=%d (reference)", a, b, q, q, b, rf.mul(q, b))
					return
				}
				var q2 int
				if pp, ww := Safely(func() { q2 = gf.Divide(m, b) }); pp {
					fail("Divide(Multiply(%d,%d)=%d,%d) panicked: %s", a, b, m, b, firstLine(ww))
					return
				}
				if q2 != a {
					fail("Divide(Multiply(%d,%d),%d)=%d", a, b, b, q2)
					return
				}
			}
			if f.size <= 256 {
				for cc := 0; cc < f.size; cc++ {
					triples++
					if l, r := gf.Multiply(gf.Multiply(a, b), cc), gf.Multiply(a, gf.Multiply(b, cc)); l != r {
						fail("Multiply not associative at (%d,%d,%d): %d vs %d", a, b, cc, l, r)
						return
					}
				}
			}
		}
	})
	if p {
		fail("field operation panicked: %s", w)
	}
	c.R.Transitions += pairs + triples
	c.R.Count("gf.pairs", pairs)
	c.R.Count("gf.triples", triples)
}

func firstLine(s string) string {
	if i := strings.IndexByte(s, '\n'); i >= 0 {
		return s[:i]
	}
	return s
}

// polyAlphabet returns the coefficient alphabet used for polynomial sweeps.
func polyAlphabet(f fieldSpec) []int {
	if f.size <= 16 {
		a := make([]int, f.size)
		for i := range a {
			a[i] = i
		}
		return a
	}
	return []int{0, 1, 2, f.size/2 + 14}
}

// enumPolys calls fn with every coefficient vector of exactly n coefficients over alpha.
func enumPolys(alpha []int, n int, fn func([]int) bool) bool {
	v := make([]int, n)
	idx := make([]int, n)
	for {
		for i := range v {
			v[i] = alpha[idx[i]]
		}
		if !fn(v) {
			return false
		}
		k := n - 1
		for k >= 0 {
			idx[k]++
			if idx[k] < len(alpha) {
				break
			}
			idx[k] = 0
			k--
		}
		if k < 0 {
			return true
		}
	}
}

// gfpoly: P = [pp,size,base,ncoefDividend, divisor coefficients...]: the divisor against
// every dividend with ncoefDividend coefficients; plus Multiply/AddOrSubstract/MultByMonominal.
func evalGFPoly(c *core.Ctx, cs *core.Case) {
	f := fieldSpec{cs.P[0], cs.P[1], cs.P[2]}
	nd := cs.P[3]
	div := append([]int(nil), cs.P[4:]...)
	rf := refField{f.pp, f.size}
	gf := realField(f)
	alpha := polyAlphabet(f)
	fail := func(format string, args ...any) { c.Fail("C17", cs, format, args...) }
	var n int64
	p, w := Safely(func() {
		d := utils.VerifPoly(gf, div)
		dn := rNorm(div)
		enumPolys(alpha, nd, func(v []int) bool {
			n++
			a := utils.VerifPoly(gf, v)
			an := rNorm(append([]int(nil), v...))
			// ring operations against the reference
			if got := a.Multiply(d).Coefficients; !peq(got, rf.pmul(an, dn)) {
				fail("Multiply(%v,%v)=%v reference %v", an, dn, got, rf.pmul(an, dn))
				return false
			}
			if got := a.AddOrSubstract(d).Coefficients; !peq(got, padd(an, dn)) {
				fail("AddOrSubstract(%v,%v)=%v reference %v", an, dn, got, padd(an, dn))
				return false
			}
			mono := append([]int{dn[0]}, make([]int, len(dn)-1)...)
			if got := a.MultByMonominal(len(dn)-1, dn[0]).Coefficients; !peq(got, rf.pmul(an, mono)) {
				fail("MultByMonominal(%v, deg %d, coeff %d)=%v reference %v", an, len(dn)-1, dn[0], got, rf.pmul(an, mono))
				return false
			}
			if len(dn) == 1 && dn[0] == 0 {
				return true // division by the zero polynomial is outside the property
			}
			q, r := a.Divide(d)
			qc, rc := rNorm(q.Coefficients), rNorm(r.Coefficients)
			if back := padd(rf.pmul(qc, dn), rc); !peq(back, an) {
				fail("Divide(%v / %v): q=%v r=%v but q*d+r=%v", an, dn, qc, rc, back)
				return false
			}
			rzero := len(rc) == 1 && rc[0] == 0
			if !rzero && len(rc) >= len(dn) {
				fail("Divide(%v / %v): remainder %v has degree >= divisor degree", an, dn, rc)
				return false
			}
			return true
		})
	})
	if p {
		fail("polynomial operation panicked: %s", w)
	}
	c.R.Transitions += n
	c.R.Count("poly.divisions", n)
}

// rsData builds the data vector of a given kind for (field, n).
func rsData(kind string, f fieldSpec, n int) []int {
	maxLen := f.size - 1 - n
	if maxLen < 1 {
		maxLen = 3 // more check symbols than the field has non-zero elements: no code any more, still defined algebra
	}
	mk := func(l int, g func(i int) int) []int {
		if l > maxLen {
			l = maxLen
		}
		d := make([]int, l)
		for i := range d {
			d[i] = g(i) % f.size
		}
		return d
	}
	switch kind {
	case "one":
		return []int{1}
	case "zero":
		return mk(5, func(int) int { return 0 })
	case "lead0":
		return mk(6, func(i int) int {
			if i < 3 {
				return 0
			}
			return i * 7
		})
	case "count":
		return mk(11, func(i int) int { return i + 1 })
	case "max":
		return mk(maxLen, func(i int) int { return i*i + 3*i + 1 })
	case "hi":
		return mk(4, func(i int) int { return f.size - 1 - i })
	}
	panic("rsData kind " + kind)
}

var rsKinds = []string{"one", "zero", "lead0", "count", "max", "hi"}

// rs: P = [pp,size,base], Ops = ["n:kind", ...]: the operation sequence is replayed on a
// fresh encoder; after every operation the result and the cache are compared with the reference.
func evalRS(c *core.Ctx, cs *core.Case) {
	f := fieldSpec{cs.P[0], cs.P[1], cs.P[2]}
	rf := refField{f.pp, f.size}
	fail := func(format string, args ...any) { c.Fail("C17", cs, format, args...) }
	p, w := Safely(func() {
		enc := utils.NewReedSolomonEncoder(realField(f))
		for i, op := range cs.Ops {
			n, kind := parseRSOp(op)
			keep := rsData(kind, f, n)
			// the data is a window of a larger buffer (one block of several), with spare capacity on odd steps
			buf := make([]int, len(keep)+2*n+8)
			for j := range buf {
				buf[j] = 1 + j%(f.size-1)
			}
			copy(buf[4:], keep)
			whole := append([]int(nil), buf...)
			data := buf[4 : 4+len(keep) : 4+len(keep)]
			if i%2 == 0 {
				data = buf[4 : 4+len(keep)]
			}
			res := enc.Encode(data, n)
			c.R.Transitions++
			if !peqRaw(buf, whole) {
				fail("op %d %s: Encode modified its data argument or the caller's buffer around it (data is elements 4..%d of a buffer of %d)", i, op, 4+len(keep), len(buf))
				return
			}
			if msg := rsCheck(rf, f, keep, n, res); msg != "" {
				fail("op %d %s after %v: %s", i, op, cs.Ops[:i], msg)
				return
			}
			if msg := rsCacheCheck(rf, f, utils.VerifRSCache(enc)); msg != "" {
				fail("op %d %s after %v: %s", i, op, cs.Ops[:i], msg)
				return
			}
		}
	})
	if p {
		fail("Reed-Solomon encoder panicked: %s", w)
	}
}

func parseRSOp(op string) (int, string) {
	i := strings.IndexByte(op, ':')
	n, _ := strconv.Atoi(op[:i])
	return n, op[i+1:]
}

func peqRaw(a, b []int) bool {
	if len(a) != len(b) {
		return false
	}
	for i := range a {
		if a[i] != b[i] {
			return false
		}
	}
	return true
}

// rsCheck verifies the check symbols of data: length, range, all syndromes zero, and
// equality with the reference remainder.
func rsCheck(rf refField, f fieldSpec, data []int, n int, res []int) string {
	if len(res) != n {
		return fmt.Sprintf("returned %d check symbols, want %d", len(res), n)
	}
	for _, v := range res {
		if v < 0 || v >= f.size {
			return fmt.Sprintf("check symbol %d out of range", v)
		}
	}
	cw := append(append([]int(nil), data...), res...)
	for i := 0; i < n; i++ {
		root := rf.pow(2, (f.base+i)%(f.size-1))
		if s := rf.eval(cw, root); s != 0 {
			return fmt.Sprintf("syndrome at alpha^%d is %d, not 0 (data=%v check=%v)", f.base+i, s, trunc(data), trunc(res))
		}
	}
	return ""
}

func rsCacheCheck(rf refField, f fieldSpec, cache [][]int) string {
	for d, g := range cache {
		if !peq(g, rf.gen(d, f.base)) {
			return fmt.Sprintf("cached generator polynomial of degree %d is %v, reference %v", d, trunc(g), trunc(rf.gen(d, f.base)))
		}
	}
	return ""
}

func trunc(v []int) string {
	if len(v) > 12 {
		return fmt.Sprintf("%v…(%d)", v[:12], len(v))
	}
	return fmt.Sprint(v)
}

func cacheKey(cache [][]int) string {
	var b strings.Builder
	for _, g := range cache {
		fmt.Fprint(&b, g, "|")
	}
	return b.String()
}

func c17Body(c *core.Ctx) {
	fields := scanFields()
	c.R.Bound("fields", fmt.Sprint(fields))
	for _, f := range fields {
		rf := refField{f.pp, f.size}
		if !rf.primitive() {
			cs := &core.Case{Fam: "gfrow", P: []int{f.pp, f.size, f.base, 1}}
			if c.Shard == 0 {
				c.Fail("C17", cs, "field polynomial %#x is not primitive for size %d", f.pp, f.size)
			}
			continue
		}
		c.R.State(fmt.Sprintf("field %#x/%d/base%d", f.pp, f.size, f.base))
		// 1. all operand pairs (and triples for size <= 256)
		for a := 0; a < f.size; a++ {
			Run(c, &core.Case{Fam: "gfrow", P: []int{f.pp, f.size, f.base, a}})
		}
	}
	// 2. polynomial ring / division sweeps
	for _, f := range fields {
		if f.size != 16 && !(f.size == 256 && f.pp == 0x11D) {
			continue
		}
		alpha := polyAlphabet(f)
		maxDivCoef, dividendCoef := 3, 3
		if f.size == 256 {
			maxDivCoef, dividendCoef = 4, 5
		}
		if c.Thorough() {
			dividendCoef++
		}
		c.R.Bound(fmt.Sprintf("poly.%#x", f.pp), fmt.Sprintf("divisors with <=%d coefficients x dividends with %d coefficients over %d symbols", maxDivCoef, dividendCoef, len(alpha)))
		for n := 1; n <= maxDivCoef; n++ {
			enumPolys(alpha, n, func(v []int) bool {
				if n > 1 && v[0] == 0 {
					return true // same polynomial as a shorter vector
				}
				P := append([]int{f.pp, f.size, f.base, dividendCoef}, v...)
				Run(c, &core.Case{Fam: "gfpoly", P: P})
				return true
			})
		}
	}
	// 3. Reed-Solomon encoder histories: BFS over Encode sequences, de-duplicated on the
	// concrete cache contents; plus all raw sequences up to length 3 (thorough) / 2 (quick).
	for _, f := range fields {
		degs := []int{1, 2, 3, 5, 8, 13}
		for _, d := range []int{30, 68, 255, 600} {
			if d <= f.size-2 {
				if d >= 255 && !c.Thorough() && f.size > 256 {
					continue
				}
				degs = append(degs, d)
			}
		}
		if f.size == 16 {
			degs = []int{1, 2, 3, 5, 6, 8, 13, 14}
		}
		var ops []string
		for _, d := range degs {
			for _, k := range rsKinds {
				ops = append(ops, fmt.Sprintf("%d:%s", d, k))
			}
		}
		P := []int{f.pp, f.size, f.base}
		// BFS (every shard walks the same tiny state graph; oracle work is sharded)
		type node struct{ path []string }
		seen := map[string]bool{}
		key := func(path []string) string {
			enc := utils.NewReedSolomonEncoder(realField(f))
			for _, op := range path {
				n, kind := parseRSOp(op)
				Safely(func() { enc.Encode(rsData(kind, f, n), n) })
			}
			// every field of the encoder (reflection), not only the polynomial list the hook knows about
			return utils.VerifDeepKey(enc)
		}
		frontier := []node{{nil}}
		seen[key(nil)] = true
		depth := 0
		for len(frontier) > 0 {
			var next []node
			for _, nd := range frontier {
				for _, op := range ops {
					path := append(append([]string(nil), nd.path...), op)
					Run(c, &core.Case{Fam: "rs", P: P, Ops: path})
					// only the degree matters for the successor state: expand one kind per degree
					if !strings.HasSuffix(op, ":count") {
						continue
					}
					k := key(path)
					if !seen[k] {
						seen[k] = true
						next = append(next, node{path})
					}
				}
			}
			frontier = next
			depth++
		}
		for k := range seen {
			c.R.State(fmt.Sprintf("rs %#x/%d: cache %x", f.pp, f.size, hash64(k)))
		}
		c.R.Bound(fmt.Sprintf("rs.%#x/%d", f.pp, f.size), fmt.Sprintf("degrees %v x data kinds %v; BFS fixpoint at depth %d, %d cache states", degs, rsKinds, depth, len(seen)))
		// raw sequences without de-duplication (guards against state the key does not see)
		rawOps := ops
		if f.size > 256 {
			rawOps = nil
			for _, op := range ops {
				if n, k := parseRSOp(op); n <= 68 && (k == "count" || k == "lead0") {
					rawOps = append(rawOps, op)
				}
			}
		}
		small := rawOps
		if len(small) > 16 {
			small = nil
			for _, op := range rawOps {
				if _, k := parseRSOp(op); k == "count" || k == "lead0" {
					small = append(small, op)
				}
			}
		}
		for _, a := range small {
			for _, b := range small {
				Run(c, &core.Case{Fam: "rs", P: P, Ops: []string{a, b}})
				if c.Thorough() {
					for _, d := range small {
						Run(c, &core.Case{Fam: "rs", P: P, Ops: []string{a, b, d}})
					}
				}
			}
		}
	}
	// 3b. every check-symbol count 1..min(600, q-1) on a fresh encoder, for every field, up to and
	// including the count that uses every non-zero element as a root (generator x^(q-1)+1: zero
	// coefficients). Beyond q-1 the "consecutive powers" repeat and there is no Reed-Solomon code to
	// speak of (the library's antilog table ends there too): outside the property's domain.
	for _, f := range fields {
		P := []int{f.pp, f.size, f.base}
		for n := 1; n <= 600 && n <= f.size-1; n++ {
			if !c.Thorough() && n > 70 && n < f.size-3 && n%16 != 0 {
				continue // quick: every count to 70, every 16th beyond, and the last three of the field
			}
			Run(c, &core.Case{Fam: "rs", P: P, Ops: []string{fmt.Sprintf("%d:count", n)}})
			Run(c, &core.Case{Fam: "rs", P: P, Ops: []string{fmt.Sprintf("%d:hi", n)}})
			if n%50 == 0 || n >= f.size-2 {
				Run(c, &core.Case{Fam: "rs", P: P, Ops: []string{fmt.Sprintf("%d:one", n), fmt.Sprintf("%d:max", n-1), fmt.Sprintf("%d:lead0", n)}})
			}
		}
		c.R.Bound(fmt.Sprintf("rscounts.%#x/%d", f.pp, f.size), "every check-symbol count 1..min(600, q-1) on a fresh encoder x 2 data kinds (quick: every count to 70, every 16th beyond, q-3..q-1)")
	}
	// 4. data sweeps: every 3-symbol data vector (small fields) / a 2-symbol-exhaustive slice (large
	// fields): check symbols that start with zeros, cancel, or equal the data are all in here
	for _, f := range fields {
		ns, cmode := []int{1, 2, 3, 4, 5, 6, 7, 8}, 0
		switch {
		case f.size == 64:
			ns = []int{2, 3, 5}
		case f.size == 256:
			ns, cmode = []int{3, 7}, 1
			if c.Thorough() {
				ns, cmode = []int{2, 3, 7}, 0
			}
		case f.size > 256:
			continue
		}
		for _, n := range ns {
			for a := 0; a < f.size; a++ {
				for b := 0; b < f.size; b++ {
					if f.size == 256 && !c.Thorough() && b%4 != a%4 {
						continue
					}
					Run(c, &core.Case{Fam: "rsdata", P: []int{f.pp, f.size, f.base, n, a, b, cmode}})
				}
			}
		}
		c.R.Bound(fmt.Sprintf("rsdata.%#x/%d", f.pp, f.size), fmt.Sprintf("data vectors [a,b,c] and [c,a,b], check counts %v, c over %s", ns, map[int]string{0: "the whole field", 1: "4 values (quick)"}[cmode]))
	}
	c.R.Sample(map[string]any{"kind": "field row", "case": "gfrow(0x11d,256,0,a=2): Multiply/Divide/Invers against carry-less reference for all b, associativity for all (b,c)"})
	c.R.Sample(map[string]any{"kind": "rs history", "ops": []string{"8:count", "3:lead0", "13:max"}, "oracle": "syndromes zero at alpha^base.., result == reference, cache == reference generators"})
}

func hash64(s string) uint64 {
	var h uint64 = 1469598103934665603
	for i := 0; i < len(s); i++ {
		h ^= uint64(s[i])
		h *= 1099511628211
	}
	return h
}

// rsdata: P = [pp,size,base,n,a,b,cmode]: every data vector [a,b,c] (c over the whole field, or
// over a few values when cmode = 1) on a fresh encoder with n check symbols.
func evalRSData(c *core.Ctx, cs *core.Case) {
	f := fieldSpec{cs.P[0], cs.P[1], cs.P[2]}
	n, a, b, cmode := cs.P[3], cs.P[4], cs.P[5], cs.P[6]
	rf := refField{f.pp, f.size}
	enc := utils.NewReedSolomonEncoder(realField(f))
	cvals := []int{1, 2, f.size/3 + 2, f.size - 1}
	if cmode == 0 {
		cvals = cvals[:0]
		for v := 0; v < f.size; v++ {
			cvals = append(cvals, v)
		}
	}
	var cnt int64
	for _, cv := range cvals {
		for _, data := range [][]int{{a, b, cv}, {cv, a, b}} {
			cnt++
			var res []int
			keep := append([]int(nil), data...)
			if p, w := Safely(func() { res = enc.Encode(data, n) }); p {
				c.Fail("C17", cs, "Encode(%v,%d) panicked: %s", keep, n, firstLine(w))
				return
			}
			if msg := rsCheck(rf, f, keep, n, res); msg != "" {
				c.Fail("C17", cs, "Encode(%v,%d): %s", keep, n, msg)
				return
			}
		}
	}
	c.R.Transitions += cnt
	c.R.Count("rs.data_vectors", cnt)
}

func init() {
	Evaluators["rsdata"] = evalRSData
	Evaluators["gfrow"] = evalGFRow
	Evaluators["gfpoly"] = evalGFPoly
	Evaluators["rs"] = evalRS
	register(&Check{
		ID: "C17", Engine: "E+B",
		Rule: "E: every field found in /repo (scan of NewGaloisField calls + design-time list): all operand pairs (a,b) and, for size<=256, all triples, against an independent carry-less reference; polynomial ring/division over all divisors/dividends up to the stated coefficient counts. B: breadth-first search over Encode(data,n) sequences of a fresh ReedSolomonEncoder, state = concrete cached generator list (hook), to a fixpoint, plus all raw sequences of length 2 (thorough: 3); in every (state,op): syndromes zero, result == reference remainder, cache == reference generators. A state is distinct by field or by cache contents.",
		Assumptions: []string{
			"small-scope: polynomial sweeps are bounded by the stated coefficient counts; for GF(256) polynomial coefficients are drawn from {0,1,2,0x8E}",
			"associativity for GF(1024)/GF(4096) is not enumerated; it follows from pairwise equality with the reference ring",
			"Encode with 0 check symbols and division by zero are outside the property",
		},
		Body: c17Body,
	})
}
