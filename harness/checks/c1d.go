package checks

import (
	"fmt"
	"image"
	"image/color"
	"strings"
	"unicode/utf8"

	"github.com/boombuler/barcode"
	"github.com/boombuler/barcode/codabar"
	"github.com/boombuler/barcode/code128"
	"github.com/boombuler/barcode/code39"
	"github.com/boombuler/barcode/code93"
	"github.com/boombuler/barcode/ean"
	"github.com/boombuler/barcode/twooffive"

	"verif/core"
	"verif/oracle/lin1d"
)

// tri is the three-valued acceptance oracle of C10.
type tri int

const (
	unspecified tri = iota
	mustAccept
	mustReject
)

// outcome checks the call contract of C10 on one encoder call and returns whether the
// content was accepted. fn must assign bc/err; a typed-nil barcode counts as nil.
func outcome(c *core.Ctx, cs *core.Case, want tri, fn func() (barcode.Barcode, error)) (barcode.Barcode, bool) {
	var bc barcode.Barcode
	var err error
	if c.Reuse != nil {
		// re-examination of a barcode that was returned earlier (it must still be what it was)
		bc, _ = c.Reuse.(barcode.Barcode)
		c.Reuse = nil
		c.R.Accepted++
		return bc, bc != nil
	}
	if p, w := Safely(func() { bc, err = fn() }); p {
		c.Fail("C10", cs, "encoder panicked: %s", w)
		return nil, false
	}
	isNil := bc == nil || isNilValue(bc)
	switch {
	case isNil && err == nil:
		c.Fail("C10", cs, "encoder returned neither a barcode nor an error")
		return nil, false
	case !isNil && err != nil:
		c.Fail("C10", cs, "encoder returned both a barcode and an error (%v)", err)
		return nil, false
	}
	if err != nil {
		c.R.Rejected++
		if want == mustAccept {
			c.Fail("C10", cs, "representable content was refused: %v", err)
		}
		return nil, false
	}
	c.R.Accepted++
	if want == mustReject {
		c.Fail("C10", cs, "content that is not representable in the symbology was accepted")
	}
	c.Last = bc
	return bc, true
}

func isNilValue(v any) bool {
	defer func() { recover() }()
	return fmt.Sprintf("%p", v) == "0x0" && fmt.Sprintf("%v", v) == "<nil>"
}

// row1D reads a 1D barcode produced by a plain Encode function: bounds (0,0)-(n,1), every
// pixel exactly color.Black or color.White. Deviations are findings of C11.
func row1D(c *core.Ctx, cs *core.Case, bc barcode.Barcode) ([]bool, bool) {
	b := bc.Bounds()
	if b.Min != (image.Point{}) || b.Dy() != 1 || b.Dx() < 1 {
		c.Fail("C11", cs, "1D barcode has bounds %v, want (0,0)-(n,1)", b)
		return nil, false
	}
	row := make([]bool, b.Dx())
	for x := range row {
		switch bw(bc.At(x, 0)) {
		case 1:
			row[x] = true
		case 0:
		default:
			c.Fail("C11", cs, "pixel (%d,0) is %v: neither black nor white", x, bc.At(x, 0))
			return nil, false
		}
	}
	return row, true
}

// bw classifies a pixel of a plain (black on white) barcode: 1 black, 0 white, -1 other.
func bw(col color.Color) int {
	if col == nil {
		return -1
	}
	r, g, b, a := col.RGBA()
	switch {
	case a == 0xffff && r == 0 && g == 0 && b == 0:
		return 1
	case a == 0xffff && r == 0xffff && g == 0xffff && b == 0xffff:
		return 0
	}
	return -1
}

func meta(c *core.Ctx, cs *core.Case, bc barcode.Barcode, kind string, dims byte, content string) {
	if m := bc.Metadata(); m.CodeKind != kind || m.Dimensions != dims {
		c.Fail("C11", cs, "Metadata() = %+v, want {%s %d}", m, kind, dims)
	}
	if got := bc.Content(); got != content {
		c.Fail("C11", cs, "Content() = %q, want %q", got, content)
	}
}

func prm(cs *core.Case, i int) int {
	if i < len(cs.P) {
		return cs.P[i]
	}
	return 0
}

// ---- Code 128 ----------------------------------------------------------------

func c128Representable(s string) tri {
	if !utf8.ValidString(s) {
		return mustReject
	}
	n := 0
	for _, r := range s {
		n++
		if r > 127 && (r < 0xF1 || r > 0xF4) {
			return mustReject
		}
	}
	if n < 1 || n > 80 {
		return mustReject
	}
	return mustAccept
}

// c128: S = content, P = [withChecksum]
func evalC128(c *core.Ctx, cs *core.Case) {
	s := string(cs.S)
	withCk := prm(cs, 0) == 1
	bc, ok := outcome(c, cs, c128Representable(s), func() (barcode.Barcode, error) {
		if withCk {
			b, e := code128.Encode(s)
			if b == nil {
				return nil, e
			}
			return b, e
		}
		return code128.EncodeWithoutChecksum(s)
	})
	if !ok {
		if c128Representable(s) == mustAccept {
			// C05 is stated for every content of its domain, not only for the accepted ones
			c.Fail("C05", cs, "no symbol for a content of 1..80 characters over the Code 128 alphabet (refused, or the encoder failed)")
		}
		return
	}
	meta(c, cs, bc, "Code 128", 1, s)
	row, ok := row1D(c, cs, bc)
	if !ok {
		return
	}
	res, err := lin1d.DecodeCode128(row, withCk)
	if err != nil {
		c.Fail("C05", cs, "symbol does not decode: %v", err)
		if withCk && strings.Contains(err.Error(), "check character") {
			c.Fail("C14", cs, "drawn check character is wrong: %v", err)
		}
		return
	}
	if string(res.Runes) != s {
		c.Fail("C05", cs, "decodes to %q (code sets %s), want %q", string(res.Runes), res.Sets, s)
	}
	if withCk {
		ics, isCS := bc.(barcode.BarcodeIntCS)
		if !isCS {
			c.Fail("C14", cs, "barcode does not expose CheckSum()")
		} else if ics.CheckSum() != res.WantCk {
			c.Fail("C14", cs, "CheckSum() = %d, modulo-103 check value of the drawn characters is %d", ics.CheckSum(), res.WantCk)
		}
	}
	c.R.State("c128 sets=" + res.Sets)
}

// ---- EAN -----------------------------------------------------------------------

func allDigits(s string) bool {
	for i := 0; i < len(s); i++ {
		if s[i] < '0' || s[i] > '9' {
			return false
		}
	}
	return true
}

func eanRepresentable(s string) tri {
	switch len(s) {
	case 7, 12:
		if allDigits(s) {
			return mustAccept
		}
	case 8, 13:
		if allDigits(s) && lin1d.EANCheckDigit(s[:len(s)-1]) == s[len(s)-1] {
			return mustAccept
		}
	}
	return mustReject
}

// ean: S = code
func evalEAN(c *core.Ctx, cs *core.Case) {
	s := string(cs.S)
	want := eanRepresentable(s)
	bc, ok := outcome(c, cs, want, func() (barcode.Barcode, error) {
		b, e := ean.Encode(s)
		if b == nil {
			return nil, e
		}
		return b, e
	})
	if !ok {
		if want == mustAccept {
			c.Fail("C06", cs, "digits with a correct (or no) check digit were refused")
		}
		return
	}
	if want != mustAccept {
		if (len(s) == 8 || len(s) == 13) && allDigits(s) {
			c.Fail("C06", cs, "accepted although the last digit is not the GS1 check digit %c", lin1d.EANCheckDigit(s[:len(s)-1]))
		}
		// accepted although it must be refused: whatever was returned must at least be a symbol
		// that decodes to the number its Content() reports
		if row, ok := row1D(c, cs, bc); ok {
			if dec, err := lin1d.DecodeEAN(row); err != nil || dec != bc.Content() {
				c.Fail("C06", cs, "input that is not an EAN number was accepted and the symbol does not decode to its Content() %q (decoded %q, %v)", bc.Content(), dec, err)
			}
		}
		return
	}
	full := s
	if len(s) == 7 || len(s) == 12 {
		full = s + string(lin1d.EANCheckDigit(s))
	}
	kind := "EAN 8"
	if len(full) == 13 {
		kind = "EAN 13"
	}
	if m := bc.Metadata(); m.CodeKind != kind || m.Dimensions != 1 {
		c.Fail("C06", cs, "Metadata() = %+v, want {%s 1}", m, kind)
		c.Fail("C11", cs, "Metadata() = %+v, want {%s 1}", m, kind)
	}
	if bc.Content() != full {
		c.Fail("C06", cs, "Content() = %q, want %q (GS1 check digit)", bc.Content(), full)
		c.Fail("C11", cs, "Content() = %q, want %q", bc.Content(), full)
	}
	row, ok := row1D(c, cs, bc)
	if !ok {
		return
	}
	dec, err := lin1d.DecodeEAN(row)
	if err != nil {
		c.Fail("C06", cs, "symbol does not decode: %v", err)
		return
	}
	if dec != full {
		c.Fail("C06", cs, "bars decode to %s, want %s", dec, full)
	}
	ics, isCS := bc.(barcode.BarcodeIntCS)
	if !isCS {
		c.Fail("C14", cs, "barcode does not expose CheckSum()")
	} else if got, w := ics.CheckSum(), int(full[len(full)-1]-'0'); got != w {
		c.Fail("C14", cs, "CheckSum() = %d, check digit of %s is %d", got, full, w)
	}
}

// ---- Code 39 -------------------------------------------------------------------

func c39Representable(s string, full bool) tri {
	if full {
		for i := 0; i < len(s); i++ {
			if s[i] > 127 {
				return mustReject
			}
		}
		if s == "" {
			return unspecified
		}
		return mustAccept
	}
	for i := 0; i < len(s); i++ {
		if lin1d.Code39Value(s[i]) < 0 {
			return mustReject
		}
	}
	if s == "" {
		return unspecified
	}
	return mustAccept
}

// c39: S = content, P = [includeChecksum, fullASCII]
func evalC39(c *core.Ctx, cs *core.Case) {
	s := string(cs.S)
	ck, full := prm(cs, 0) == 1, prm(cs, 1) == 1
	bc, ok := outcome(c, cs, c39Representable(s, full), func() (barcode.Barcode, error) {
		b, e := code39.Encode(s, ck, full)
		if b == nil {
			return nil, e
		}
		return b, e
	})
	if !ok {
		return
	}
	if m := bc.Metadata(); m.CodeKind != "Code 39" || m.Dimensions != 1 {
		c.Fail("C11", cs, "Metadata() = %+v, want {Code 39 1}", m)
	}
	row, ok := row1D(c, cs, bc)
	if !ok {
		return
	}
	chars, err := lin1d.DecodeCode39(row)
	if err != nil {
		c.Fail("C07", cs, "symbol does not decode: %v", err)
		return
	}
	data := chars
	drawn := -1
	if ck {
		if len(chars) < 1 {
			c.Fail("C07", cs, "check character requested but the symbol has no characters")
			return
		}
		drawn = lin1d.Code39Value(chars[len(chars)-1])
		data = chars[:len(chars)-1]
	}
	sum := 0
	for i := 0; i < len(data); i++ {
		sum += lin1d.Code39Value(data[i])
	}
	sum %= 43
	if ck && drawn != sum {
		c.Fail("C07", cs, "check character has value %d, modulo-43 sum of %q is %d", drawn, data, sum)
		c.Fail("C14", cs, "drawn check character has value %d, modulo-43 check value is %d", drawn, sum)
	}
	text := []byte(data)
	if full {
		text, err = lin1d.Code39FullASCII(data)
		if err != nil {
			c.Fail("C07", cs, "full-ASCII characters %q: %v", data, err)
			return
		}
	}
	if string(text) != s {
		c.Fail("C07", cs, "decodes to %q (characters %q), want %q", text, chars, s)
	}
	// Content(): the text, in full-ASCII mode its basic-alphabet spelling
	if full {
		if back, err := lin1d.Code39FullASCII(bc.Content()); err != nil || string(back) != s || bc.Content() != data {
			c.Fail("C11", cs, "Content() = %q is not the basic-alphabet spelling %q of the text", bc.Content(), data)
		}
	} else if bc.Content() != s {
		c.Fail("C11", cs, "Content() = %q, want %q", bc.Content(), s)
	}
	if ics, isCS := bc.(barcode.BarcodeIntCS); !isCS {
		c.Fail("C14", cs, "barcode does not expose CheckSum()")
	} else if ics.CheckSum() != sum {
		c.Fail("C14", cs, "CheckSum() = %d, modulo-43 check value of %q is %d", ics.CheckSum(), data, sum)
	}
}

// ---- Code 93 -------------------------------------------------------------------

func c93Representable(s string, full bool) tri {
	if full {
		return c39Representable(s, true)
	}
	if !utf8.ValidString(s) {
		return mustReject
	}
	t := mustAccept
	for _, r := range s {
		switch {
		case r >= 0xF1 && r <= 0xF4:
			t = unspecified
		case r > 127 || lin1d.Code39Value(byte(r)) < 0:
			return mustReject
		}
	}
	if s == "" {
		return unspecified
	}
	return t
}

// c93: S = content, P = [includeChecksum, fullASCII]
func evalC93(c *core.Ctx, cs *core.Case) {
	s := string(cs.S)
	ck, full := prm(cs, 0) == 1, prm(cs, 1) == 1
	bc, ok := outcome(c, cs, c93Representable(s, full), func() (barcode.Barcode, error) { return code93.Encode(s, ck, full) })
	if !ok {
		return
	}
	if m := bc.Metadata(); m.CodeKind != "Code 93" || m.Dimensions != 1 {
		c.Fail("C11", cs, "Metadata() = %+v, want {Code 93 1}", m)
	}
	row, ok := row1D(c, cs, bc)
	if !ok {
		return
	}
	vals, err := lin1d.DecodeCode93(row)
	if err != nil {
		c.Fail("C07", cs, "symbol does not decode: %v", err)
		return
	}
	data := vals
	if ck {
		if len(vals) < 2 {
			c.Fail("C07", cs, "check characters requested but only %d characters drawn", len(vals))
			return
		}
		data = vals[:len(vals)-2]
		cC, cK := vals[len(vals)-2], vals[len(vals)-1]
		wantC := lin1d.Code93Check(data, 20)
		wantK := lin1d.Code93Check(append(append([]int(nil), data...), wantC), 15)
		if cC != wantC || cK != wantK {
			c.Fail("C07", cs, "check characters C,K = %d,%d; computed %d,%d over %v", cC, cK, wantC, wantK, data)
		}
	}
	text, err := lin1d.Code93Text(data, full)
	if err != nil {
		c.Fail("C07", cs, "characters %v (check characters requested: %v): %v", data, ck, err)
		return
	}
	if string(text) != s {
		c.Fail("C07", cs, "decodes to %q (%d characters between start and stop, check characters requested: %v), want %q", string(text), len(vals), ck, s)
	}
	if full {
		spelled, _ := lin1d.Code93Text(data, false)
		if bc.Content() != string(spelled) {
			c.Fail("C11", cs, "Content() = %q is not the basic-alphabet spelling %q of the text", bc.Content(), string(spelled))
		}
		// and, independently of what was drawn, Content() must spell the text that was passed in
		var cv []int
		okc := true
		for _, r := range bc.Content() {
			switch {
			case r >= 0xF1 && r <= 0xF4:
				cv = append(cv, 43+int(r-0xF1))
			case r < 128 && lin1d.Code39Value(byte(r)) >= 0:
				cv = append(cv, lin1d.Code39Value(byte(r)))
			default:
				okc = false
			}
		}
		if back, err := lin1d.Code93Text(cv, true); !okc || err != nil || string(back) != s {
			c.Fail("C11", cs, "Content() = %q does not spell the text %q that was encoded", bc.Content(), s)
		}
	} else if bc.Content() != s {
		c.Fail("C11", cs, "Content() = %q, want %q", bc.Content(), s)
	}
}

// ---- Codabar -------------------------------------------------------------------

func codabarRepresentable(s string) tri {
	ss := func(b byte) bool { return b >= 'A' && b <= 'D' }
	if len(s) < 2 || !ss(s[0]) || !ss(s[len(s)-1]) {
		return mustReject
	}
	for i := 1; i < len(s)-1; i++ {
		if !strings.ContainsRune("0123456789-$:/.+", rune(s[i])) {
			return mustReject
		}
	}
	return mustAccept
}

func evalCodabar(c *core.Ctx, cs *core.Case) {
	s := string(cs.S)
	bc, ok := outcome(c, cs, codabarRepresentable(s), func() (barcode.Barcode, error) { return codabar.Encode(s) })
	if !ok {
		return
	}
	meta(c, cs, bc, "Codabar", 1, s)
	row, ok := row1D(c, cs, bc)
	if !ok {
		return
	}
	dec, err := lin1d.DecodeCodabar(row)
	if err != nil {
		c.Fail("C08", cs, "symbol does not decode: %v", err)
		return
	}
	if dec != s {
		c.Fail("C08", cs, "decodes to %q, want %q", dec, s)
	}
}

// ---- 2 of 5 ----------------------------------------------------------------------

func tofRepresentable(s string, inter bool) tri {
	if s == "" || !allDigits(s) || (inter && len(s)%2 == 1) {
		return mustReject
	}
	return mustAccept
}

// tof: S = content, P = [interleaved]
func evalTof(c *core.Ctx, cs *core.Case) {
	s := string(cs.S)
	inter := prm(cs, 0) == 1
	bc, ok := outcome(c, cs, tofRepresentable(s, inter), func() (barcode.Barcode, error) { return twooffive.Encode(s, inter) })
	if !ok {
		return
	}
	kind := "2 of 5"
	if inter {
		kind = "2 of 5 (interleaved)"
	}
	meta(c, cs, bc, kind, 1, s)
	row, ok := row1D(c, cs, bc)
	if !ok {
		return
	}
	dec, err := lin1d.Decode2of5(row, inter)
	if err != nil {
		c.Fail("C08", cs, "symbol does not decode: %v", err)
		return
	}
	if dec != s {
		c.Fail("C08", cs, "decodes to %q, want %q", dec, s)
	}
}

// tofcs: S = content for AddCheckSum
func evalTofCS(c *core.Ctx, cs *core.Case) {
	s := string(cs.S)
	var out string
	var err error
	if p, w := Safely(func() { out, err = twooffive.AddCheckSum(s) }); p {
		c.Fail("C08", cs, "AddCheckSum panicked: %s", w)
		c.Fail("C10", cs, "AddCheckSum panicked: %s", w)
		return
	}
	valid := s != "" && allDigits(s)
	if !valid {
		c.R.Rejected++
		if err == nil {
			c.Fail("C08", cs, "AddCheckSum accepted %q and returned %q", s, out)
		}
		return
	}
	c.R.Accepted++
	if err != nil {
		c.Fail("C08", cs, "AddCheckSum refused the digit string: %v", err)
		return
	}
	if len(out) != len(s)+1 || out[:len(s)] != s || out[len(s)] < '0' || out[len(s)] > '9' {
		c.Fail("C08", cs, "AddCheckSum returned %q, want the input followed by one digit", out)
		return
	}
	sum, w := 0, 1
	for i := len(out) - 1; i >= 0; i-- {
		sum += int(out[i]-'0') * w
		w = 4 - w
	}
	if sum%10 != 0 {
		c.Fail("C08", cs, "AddCheckSum returned %q: 3-1 weighted sum (check digit weight 1) is %d, not a multiple of ten", out, sum)
	}
}

func init() {
	Evaluators["c128"] = evalC128
	Evaluators["ean"] = evalEAN
	Evaluators["c39"] = evalC39
	Evaluators["c93"] = evalC93
	Evaluators["codabar"] = evalCodabar
	Evaluators["tof"] = evalTof
	Evaluators["tofcs"] = evalTofCS
}
