package checks

import (
	"fmt"
	"image"
	"image/color"

	"github.com/boombuler/barcode"
	"github.com/boombuler/barcode/aztec"
	"github.com/boombuler/barcode/codabar"
	"github.com/boombuler/barcode/code128"
	"github.com/boombuler/barcode/code39"
	"github.com/boombuler/barcode/code93"
	"github.com/boombuler/barcode/datamatrix"
	"github.com/boombuler/barcode/ean"
	"github.com/boombuler/barcode/pdf417"
	"github.com/boombuler/barcode/qr"
	"github.com/boombuler/barcode/twooffive"

	"verif/core"
	"verif/oracle/dmdec"
)

type renderFam struct {
	name string
	// base is the evaluator family whose reference decoder validates size/metadata/content of the plain symbol
	base string
	enc  func(content []byte, p []int, sc *barcode.ColorScheme) (barcode.Barcode, error)
}

var renderFams = []renderFam{
	{"qr", "qr", func(s []byte, p []int, sc *barcode.ColorScheme) (barcode.Barcode, error) {
		if sc == nil {
			return qr.Encode(string(s), qrLevels[p[0]], qrModes[p[1]])
		}
		return qr.EncodeWithColor(string(s), qrLevels[p[0]], qrModes[p[1]], *sc)
	}},
	{"datamatrix", "dm", func(s []byte, p []int, sc *barcode.ColorScheme) (barcode.Barcode, error) {
		if sc == nil {
			return datamatrix.Encode(string(s))
		}
		return datamatrix.EncodeWithColor(string(s), *sc)
	}},
	{"aztec", "az", func(s []byte, p []int, sc *barcode.ColorScheme) (barcode.Barcode, error) {
		if sc == nil {
			return aztec.Encode(s, p[0], p[1])
		}
		return aztec.EncodeWithColor(s, p[0], p[1], *sc)
	}},
	{"pdf417", "pdf", func(s []byte, p []int, sc *barcode.ColorScheme) (barcode.Barcode, error) {
		if sc == nil {
			return pdf417.Encode(string(s), byte(p[0]))
		}
		return pdf417.EncodeWithColor(string(s), byte(p[0]), *sc)
	}},
	{"code128", "c128", func(s []byte, p []int, sc *barcode.ColorScheme) (barcode.Barcode, error) {
		if p[0] == 1 {
			if sc == nil {
				return up(code128.Encode(string(s)))
			}
			return up(code128.EncodeWithColor(string(s), *sc))
		}
		if sc == nil {
			return code128.EncodeWithoutChecksum(string(s))
		}
		return code128.EncodeWithoutChecksumWithColor(string(s), *sc)
	}},
	{"ean", "ean", func(s []byte, p []int, sc *barcode.ColorScheme) (barcode.Barcode, error) {
		if sc == nil {
			return up(ean.Encode(string(s)))
		}
		return up(ean.EncodeWithColor(string(s), *sc))
	}},
	{"code39", "c39", func(s []byte, p []int, sc *barcode.ColorScheme) (barcode.Barcode, error) {
		if sc == nil {
			return up(code39.Encode(string(s), p[0] == 1, p[1] == 1))
		}
		return up(code39.EncodeWithColor(string(s), p[0] == 1, p[1] == 1, *sc))
	}},
	{"code93", "c93", func(s []byte, p []int, sc *barcode.ColorScheme) (barcode.Barcode, error) {
		if sc == nil {
			return code93.Encode(string(s), p[0] == 1, p[1] == 1)
		}
		return code93.EncodeWithColor(string(s), p[0] == 1, p[1] == 1, *sc)
	}},
	{"codabar", "codabar", func(s []byte, p []int, sc *barcode.ColorScheme) (barcode.Barcode, error) {
		if sc == nil {
			return codabar.Encode(string(s))
		}
		return codabar.EncodeWithColor(string(s), *sc)
	}},
	{"twooffive", "tof", func(s []byte, p []int, sc *barcode.ColorScheme) (barcode.Barcode, error) {
		if sc == nil {
			return twooffive.Encode(string(s), p[0] == 1)
		}
		return twooffive.EncodeWithColor(string(s), p[0] == 1, *sc)
	}},
}

type namedScheme struct {
	name string
	sc   barcode.ColorScheme
}

var renderSchemes = []namedScheme{
	{"ColorScheme8", barcode.ColorScheme8},
	{"ColorScheme16", barcode.ColorScheme16},
	{"ColorScheme24", barcode.ColorScheme24},
	{"ColorScheme32", barcode.ColorScheme32},
	{"gray 13 on 200", barcode.ColorScheme{Model: color.GrayModel, Background: color.Gray{200}, Foreground: color.Gray{13}}},
	{"gray16", barcode.ColorScheme{Model: color.Gray16Model, Background: color.Gray16{0xC0DE}, Foreground: color.Gray16{0x0123}}},
	{"rgba opaque", barcode.ColorScheme{Model: color.RGBAModel, Background: color.RGBA{200, 210, 220, 255}, Foreground: color.RGBA{10, 20, 30, 255}}},
	{"nrgba translucent", barcode.ColorScheme{Model: color.NRGBAModel, Background: color.NRGBA{255, 255, 0, 60}, Foreground: color.NRGBA{0, 0, 255, 128}}},
	{"cmyk", barcode.ColorScheme{Model: color.CMYKModel, Background: color.CMYK{0, 0, 0, 10}, Foreground: color.CMYK{90, 30, 0, 60}}},
	{"same luminance", barcode.ColorScheme{Model: color.RGBAModel, Background: color.RGBA{0, 128, 0, 255}, Foreground: color.RGBA{255, 3, 0, 255}}},
	{"inverted", barcode.ColorScheme{Model: color.Gray16Model, Background: color.Black, Foreground: color.White}},
	// pairs of schemes whose colours are different values with the same RGBA64 rendering (a key built from
	// converted colours, or a comparison through RGBA(), confuses them): the second of each pair follows the first
	{"cmyk black k=255 (a)", barcode.ColorScheme{Model: color.CMYKModel, Background: color.CMYK{0, 0, 0, 0}, Foreground: color.CMYK{0, 0, 0, 255}}},
	{"cmyk black k=255 (b)", barcode.ColorScheme{Model: color.CMYKModel, Background: color.CMYK{0, 0, 0, 0}, Foreground: color.CMYK{10, 20, 30, 255}}},
	{"nrgba alpha 0 (a)", barcode.ColorScheme{Model: color.NRGBAModel, Background: color.NRGBA{255, 0, 0, 0}, Foreground: color.NRGBA{0, 0, 0, 255}}},
	{"nrgba alpha 0 (b)", barcode.ColorScheme{Model: color.NRGBAModel, Background: color.NRGBA{0, 255, 0, 0}, Foreground: color.NRGBA{0, 0, 0, 255}}},
	{"gray 13 on 200 as Gray16 values", barcode.ColorScheme{Model: color.GrayModel, Background: color.Gray16{200 * 257}, Foreground: color.Gray16{13 * 257}}},
	{"colours foreign to the model", barcode.ColorScheme{Model: color.GrayModel, Background: color.RGBA{1, 2, 3, 255}, Foreground: color.NRGBA{200, 100, 50, 255}}},
}

func reverseBytes(b []byte) []byte {
	out := make([]byte, len(b))
	for i := range b {
		out[len(b)-1-i] = b[i]
	}
	return out
}

func sameScheme(a, b barcode.ColorScheme) bool {
	return a.Model == b.Model && a.Foreground == b.Foreground && a.Background == b.Background
}

// render: S = content, P = [family, params...]. The plain symbol is validated by the family's
// evaluator (size, metadata, content, black on white); every colour scheme must give the
// identical module matrix with exactly its two colours, and report the scheme.
func evalRender(c *core.Ctx, cs *core.Case) {
	fam := renderFams[cs.P[0]]
	p := cs.P[1:]
	// 1. plain Encode through the family's evaluator (reports C11 findings itself)
	base := &core.Case{Fam: fam.base, S: cs.S, P: p}
	before := c.R.NFindings
	Evaluators[fam.base](c, base)
	if c.R.NFindings != before {
		return
	}
	var plain barcode.Barcode
	var err error
	if pn, _ := Safely(func() { plain, err = fam.enc(cs.S, p, nil) }); pn || err != nil || plain == nil {
		return // refusal/panic is judged by C10
	}
	pb := plain.Bounds()
	if v, ok := plain.(barcode.BarcodeColor); ok {
		if s := v.ColorScheme(); bw(s.Foreground) != 1 || bw(s.Background) != 0 {
			c.Fail("C11", cs, "plain Encode reports colour scheme %v, want black on white", s)
		}
	}
	// module matrix of the plain symbol, taken now (a later encode must not change it)
	plainBits := make([]int8, pb.Dx()*pb.Dy())
	for y := 0; y < pb.Dy(); y++ {
		for x := 0; x < pb.Dx(); x++ {
			plainBits[y*pb.Dx()+x] = int8(bw(plain.At(x, y)))
		}
	}
	mod := func(_ barcode.Barcode, x, y int) int { return int(plainBits[y*pb.Dx()+x]) }
	for si, ns := range renderSchemes {
		sc := ns.sc
		var bc barcode.Barcode
		if pn, w := Safely(func() { bc, err = fam.enc(cs.S, p, &sc) }); pn {
			c.Fail("C10", cs, "WithColor variant panicked with scheme %s: %s", ns.name, w)
			continue
		}
		c.R.Transitions++
		if err != nil || bc == nil {
			c.Fail("C11", cs, "plain Encode accepts the content but the WithColor variant with scheme %q refuses it: %v", ns.name, err)
			continue
		}
		if b := bc.Bounds(); b != pb || b.Min != (image.Point{}) {
			c.Fail("C11", cs, "scheme %q: bounds %v, plain symbol has %v", ns.name, b, pb)
			continue
		}
		bad := false
		for y := 0; y < pb.Dy() && !bad; y++ {
			for x := 0; x < pb.Dx(); x++ {
				px := bc.At(x, y)
				var m int
				switch px {
				case sc.Foreground:
					m = 1
				case sc.Background:
					m = 0
				default:
					c.Fail("C11", cs, "scheme %q: pixel (%d,%d) is %v, neither the foreground %v nor the background %v", ns.name, x, y, px, sc.Foreground, sc.Background)
					bad = true
				}
				if bad {
					break
				}
				if m != mod(plain, x, y) {
					c.Fail("C11", cs, "scheme %q: module (%d,%d) differs from the plain symbol (pattern depends on the colour scheme)", ns.name, x, y)
					bad = true
					break
				}
			}
		}
		if bc.ColorModel() != sc.Model {
			c.Fail("C11", cs, "scheme %q: ColorModel() is not the scheme's model", ns.name)
		}
		if v, ok := bc.(barcode.BarcodeColor); !ok {
			c.Fail("C11", cs, "scheme %q: barcode does not report a colour scheme", ns.name)
		} else if !sameScheme(v.ColorScheme(), sc) {
			c.Fail("C11", cs, "scheme %q: ColorScheme() returns %v", ns.name, v.ColorScheme())
		}
		if bc.Metadata() != plain.Metadata() || bc.Content() != plain.Content() {
			c.Fail("C11", cs, "scheme %q: Metadata/Content %+v %q differ from the plain symbol's %+v %q", ns.name, bc.Metadata(), bc.Content(), plain.Metadata(), plain.Content())
		}
		c.R.Count("render.pixels", int64(pb.Dx()*pb.Dy()))
		_ = si
	}
	// render some other contents of the same family in between: what was returned must stay as it is
	for _, alt := range [][]byte{append(append([]byte(nil), cs.S...), cs.S...), cs.S[:len(cs.S)/2], reverseBytes(cs.S)} {
		sc := renderSchemes[6].sc
		Safely(func() { fam.enc(alt, p, &sc) })
		Safely(func() { fam.enc(alt, p, nil) })
	}
	for y := 0; y < pb.Dy(); y++ {
		for x := 0; x < pb.Dx(); x++ {
			if int8(bw(plain.At(x, y))) != plainBits[y*pb.Dx()+x] {
				c.Fail("C11", cs, "module (%d,%d) of the plain symbol changed after other barcodes of the same family were rendered: every pixel of a returned barcode must stay the colour it was", x, y)
				c.R.State(fmt.Sprintf("%s %dx%d", fam.name, pb.Dx(), pb.Dy()))
				return
			}
		}
	}
	c.R.State(fmt.Sprintf("%s %dx%d", fam.name, pb.Dx(), pb.Dy()))
}

func c11Body(c *core.Ctx) {
	// Content()/Metadata() must also be right for a call that follows other (accepted or refused) calls
	defer seqPairs(c, "c39", "c93", "c128", "ean", "codabar", "tof")
	T := c.Thorough()
	run := func(fam int, s []byte, p ...int) {
		Run(c, &core.Case{Fam: "render", S: s, P: append([]int{fam}, p...)})
	}
	// QR: one content per version (quick: a spread of versions), levels rotate
	vs := []int{1, 2, 3, 6, 7, 10, 14, 20, 27, 33, 40}
	if T {
		vs = nil
		for v := 1; v <= 40; v++ {
			vs = append(vs, v)
		}
	}
	for _, v := range vs {
		for _, lvl := range []int{v % 4, (v + 2) % 4} {
			run(0, qrFill(1, qrCap(1, lvl, v)), lvl, 1)
			run(0, qrFill(2, qrCap(2, lvl, v)), lvl, 0)
			run(0, qrFill(4, qrCap(4, lvl, v)), lvl, 3)
		}
	}
	// DataMatrix: every size
	for _, sz := range dmdec.Sizes {
		run(1, dmByCodewords(sz.DataCodewords)[0])
		run(1, dmByCodewords(sz.DataCodewords)[4])
	}
	run(1, nil)
	// Aztec: every layer request and automatic sizes
	for l := -4; l <= 32; l++ {
		if !T && l > 6 && l%5 != 2 && l != 32 {
			continue
		}
		run(2, []byte("Az 9."), 33, l)
	}
	for _, n := range []int{0, 1, 20, 100, 400, 1500} {
		run(2, azFills[3](n), 23, 0)
	}
	// PDF417: shapes
	for _, lv := range []int{0, 2, 5, 8} {
		for _, n := range []int{0, 1, 10, 100, 500, 1200} {
			run(3, []byte(Filler("aB1;& ,z\nQ:x", n)), lv)
		}
	}
	// linear families, every flag combination
	for ck := 0; ck <= 1; ck++ {
		for _, s := range []string{"A", "Hello 123456 \x01" + fnc1 + "99", Filler("0123456789", 40)} {
			run(4, []byte(s), ck)
		}
		for full := 0; full <= 1; full++ {
			for _, s := range []string{"A", "CODE 39-.$/+%", "AB12"} {
				run(6, []byte(s), ck, full)
				run(7, []byte(s), ck, full)
			}
			run(6, []byte("a~\x00z"), ck, 1)
			run(7, []byte("a~\x00z"), ck, 1)
		}
	}
	for _, s := range []string{"1234567", "12345670", "590123412345", "5901234123457", "0000000", "999999999999"} {
		run(5, []byte(s))
	}
	for _, s := range []string{"AB", "A0123456789-$:/.+D", "C1D"} {
		run(8, []byte(s))
	}
	for _, s := range []string{"12", "0123456789", "5"} {
		run(9, []byte(s), 0)
		run(9, []byte(s), 1)
	}
	// many short QR contents: the mask (and thus the module pattern) must be the same under every scheme
	Words(letters("0123456789"), 1, 3, func(w string, n int) bool {
		if n < 3 || (w[2]-'0')%3 == 1 {
			run(0, []byte(w), 0, 0)
		}
		return true
	})
	for _, s := range []string{"1", "12", "12345670", "0246", "98765432109876"} {
		run(9, []byte(s), 0)
		run(9, []byte(s), 1)
		run(9, []byte(s+s), 1)
	}
	// Content()/Metadata() over the alphabets of the linear families (the evaluators of C05-C08 judge them)
	enumC39C93(c, []string{"c39", "c93"}, 2)
	enumC128(c, 3, 1, 3)
	enumC08(c, 3, 4)
	Words(letters("0123456789"), 7, 7, func(w string, _ int) bool {
		if w[0] == '4' && w[1] == '0' {
			Run(c, &core.Case{Fam: "ean", S: []byte(w)})
		}
		return true
	})
	c.R.Bound("linear_content", "Content/Metadata on all Code 39/93 words <= 2 over the full alphabets in all option mixes, Code 128 class words <= 3 and all single characters, Codabar words <= 3, 2-of-5 words <= 4, 10^5 EAN-8 inputs")
	c.R.Bound("schemes", fmt.Sprintf("%d colour schemes over Gray, Gray16, RGBA, NRGBA, CMYK models incl. inverted, same-luminance and colours foreign to the model", len(renderSchemes)))
	c.R.Bound("contents", "QR one numeric/alphanumeric/byte content at the capacity of each selected version x 2 levels; all 24 DataMatrix sizes; Aztec layer requests and automatic sizes; PDF417 6 lengths x 4 levels; every linear family with every flag combination")
	c.R.Sample(map[string]any{"family": "aztec", "payload": "Az 9.", "layers": -2, "schemes": "all", "oracle": "every pixel identical to the scheme's foreground or background; module matrix equals the plain symbol's; ColorModel/ColorScheme report the scheme"})
}

func init() {
	Evaluators["render"] = evalRender
	register(&Check{ID: "C11", Engine: "E", Body: c11Body,
		Rule:        "for every encoder family, flag combination and representative content of every symbol size: the plain symbol is validated by the family's reference decoder (prescribed size, Metadata, Content, black on white), then each of 17 colour schemes (five of them forming pairs of different colour values with the same RGBA64 rendering) is rendered through the WithColor variant and every pixel is compared (identity with foreground/background, module matrix identical to the plain symbol), plus ColorModel, ColorScheme, Metadata, Content. A state is a distinct (family, symbol size).",
		Assumptions: []string{"contents are representatives per symbol size; the renderers do not look at the content when choosing colours", "colour identity is Go interface equality of color.Color values"}})
}
