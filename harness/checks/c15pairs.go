package checks

import (
	"encoding/hex"
	"fmt"
	"os"
	"os/exec"
	"strconv"
	"strings"
	"sync"

	"github.com/boombuler/barcode"
	"github.com/boombuler/barcode/aztec"
	"github.com/boombuler/barcode/codabar"
	"github.com/boombuler/barcode/code128"
	"github.com/boombuler/barcode/code39"
	"github.com/boombuler/barcode/code93"
	"github.com/boombuler/barcode/datamatrix"
	"github.com/boombuler/barcode/ean"
	"github.com/boombuler/barcode/pdf417"
	"github.com/boombuler/barcode/qr"
	"github.com/boombuler/barcode/twooffive"

	"verif/core"
	"verif/oracle/dmdec"
	"verif/oracle/qrdec"
)

// call is one encoder call in serialisable form: family, content, integer parameters.
type call struct {
	fam string
	s   []byte
	p   []int
}

func (c call) String() string {
	ps := make([]string, len(c.p))
	for i, v := range c.p {
		ps[i] = strconv.Itoa(v)
	}
	return c.fam + "|" + hex.EncodeToString(c.s) + "|" + strings.Join(ps, ",")
}

func (c call) pretty() string {
	s := string(c.s)
	if len(s) > 40 {
		s = fmt.Sprintf("%s…(%d bytes)", s[:24], len(s))
	}
	return fmt.Sprintf("%s(%q,%v)", c.fam, s, c.p)
}

func parseCall(d string) (call, error) {
	f := strings.Split(d, "|")
	if len(f) != 3 {
		return call{}, fmt.Errorf("bad call descriptor %q", d)
	}
	s, err := hex.DecodeString(f[1])
	if err != nil {
		return call{}, err
	}
	c := call{fam: f[0], s: s}
	if f[2] != "" {
		for _, x := range strings.Split(f[2], ",") {
			v, err := strconv.Atoi(x)
			if err != nil {
				return call{}, err
			}
			c.p = append(c.p, v)
		}
	}
	return c, nil
}

func (c call) pi(i int) int {
	if i < len(c.p) {
		return c.p[i]
	}
	return 0
}

// run performs the call on the real library (plain Encode variants).
// schemeFam maps a family name to its index in renderFams (entry points with a colour scheme).
var schemeFam = map[string]int{"qr": 0, "dm": 1, "az": 2, "pdf": 3, "c128": 4, "ean": 5, "c39": 6, "c93": 7, "codabar": 8, "tof": 9}

func (c call) run() (barcode.Barcode, error) {
	s := string(c.s)
	// "fam@k": the WithColor entry point of the family with colour scheme k of renderSchemes
	if i := strings.IndexByte(c.fam, '@'); i >= 0 {
		k, _ := strconv.Atoi(c.fam[i+1:])
		sc := renderSchemes[k%len(renderSchemes)].sc
		p := append([]int(nil), c.p...)
		for len(p) < 2 {
			p = append(p, 0)
		}
		return renderFams[schemeFam[c.fam[:i]]].enc(c.s, p, &sc)
	}
	switch c.fam {
	case "scale":
		// s = "<family>:<content>", p = [width, height]: Scale of a freshly encoded source
		i := strings.IndexByte(s, ':')
		src, err := call{fam: s[:i], s: []byte(s[i+1:]), p: scaleSrcParams[s[:i]]}.run()
		if err != nil {
			return nil, err
		}
		return barcode.Scale(src, c.pi(0), c.pi(1))
	case "qr":
		return qr.Encode(s, qrLevels[c.pi(0)], qrModes[c.pi(1)])
	case "dm":
		return datamatrix.Encode(s)
	case "az":
		return aztec.Encode(append([]byte(nil), c.s...), c.pi(0), c.pi(1))
	case "pdf":
		return pdf417.Encode(s, byte(c.pi(0)))
	case "c128":
		if c.pi(0) == 1 {
			return up(code128.Encode(s))
		}
		return code128.EncodeWithoutChecksum(s)
	case "ean":
		return up(ean.Encode(s))
	case "c39":
		return up(code39.Encode(s, c.pi(0) == 1, c.pi(1) == 1))
	case "c93":
		return code93.Encode(s, c.pi(0) == 1, c.pi(1) == 1)
	case "codabar":
		return codabar.Encode(s)
	case "tof":
		return twooffive.Encode(s, c.pi(0) == 1)
	}
	return nil, fmt.Errorf("unknown family %q", c.fam)
}

// scaleSrcParams: parameters of the sources of the "scale" calls.
var scaleSrcParams = map[string][]int{"qr": {1, 0}, "dm": nil, "az": {33, 0}, "pdf": {1}, "c128": {1}, "ean": nil}

func (c call) observeSafe() (obs string, bc barcode.Barcode) {
	if p, w := Safely(func() {
		var err error
		bc, err = c.run()
		obs = observe(bc, err)
	}); p {
		return "panic: " + firstLine(w), nil
	}
	return obs, bc
}

func init() {
	oneshotPrefix["call:"] = func(arg string) string {
		c, err := parseCall(arg)
		if err != nil {
			return "bad descriptor"
		}
		o, _ := c.observeSafe()
		return o
	}
}

var (
	baseMu   sync.Mutex
	baseline = map[string]string{}
)

// freshCall returns the observation of the call alone in a freshly started process.
func freshCall(c call) (string, error) {
	d := c.String()
	baseMu.Lock()
	defer baseMu.Unlock()
	if o, ok := baseline[d]; ok {
		return o, nil
	}
	self, err := os.Executable()
	if err != nil {
		return "", err
	}
	out, err := exec.Command(self, "C15", "--oneshot", "call:"+d).Output()
	if err != nil {
		return "", fmt.Errorf("fresh process for %s: %v", c.pretty(), err)
	}
	o := strings.TrimSpace(string(out))
	baseline[d] = o
	return o, nil
}

// pair: Ops = [descriptor a, descriptor b]. In one process: a, then b. The observation of b must
// equal b's fresh-process observation (no state leaks from a), a's observation must equal a's
// fresh-process observation, and the barcode returned for a must not change when b is encoded
// (a returned barcode is a snapshot).
func evalPair(c *core.Ctx, cs *core.Case) {
	a, e1 := parseCall(cs.Ops[0])
	b, e2 := parseCall(cs.Ops[1])
	if e1 != nil || e2 != nil {
		c.Fail("C15", cs, "bad pair descriptor: %v %v", e1, e2)
		return
	}
	fa, err := freshCall(a)
	if err != nil {
		c.Fail("C15", cs, "%v", err)
		return
	}
	fb, err := freshCall(b)
	if err != nil {
		c.Fail("C15", cs, "%v", err)
		return
	}
	oa, bcA := a.observeSafe()
	ob, _ := b.observeSafe()
	c.R.Transitions += 2
	if oa != fa {
		c.Fail("C15", cs, "%s observes %s, alone in a freshly started process %s", a.pretty(), oa, fa)
		return
	}
	if ob != fb {
		c.Fail("C15", cs, "%s called after %s observes %s, alone in a freshly started process it observes %s", b.pretty(), a.pretty(), ob, fb)
		return
	}
	if bcA != nil {
		var again string
		if p, w := Safely(func() { again = observe(bcA, nil) }); p {
			again = "panic: " + firstLine(w)
		}
		if again != oa {
			c.Fail("C15", cs, "the barcode returned by %s changed (observation %s -> %s) when %s was encoded afterwards: a returned barcode must be a snapshot", a.pretty(), oa, again, b.pretty())
		}
	}
}

// det: Ops = [descriptor], P = [repetitions]: the same call repeated in place must observe the same.
func evalDet(c *core.Ctx, cs *core.Case) {
	a, err := parseCall(cs.Ops[0])
	if err != nil {
		c.Fail("C15", cs, "%v", err)
		return
	}
	first, _ := a.observeSafe()
	for i := 1; i < prm(cs, 0); i++ {
		c.R.Transitions++
		if o, _ := a.observeSafe(); o != first {
			c.Fail("C15", cs, "%s: repetition %d observes %s, the first call %s (same arguments, different barcode)", a.pretty(), i, o, first)
			return
		}
	}
}

// burstContent returns the i-th content of a burst: k characters that cost one DataMatrix codeword each
// (or k bytes for QR byte mode), pseudo-random but fixed.
func burstContent(k, i int) []byte {
	const al = "ABCDEFGHIJKLMNOPQRSTUVWXYZabcdefghijklmnopqrstuvwxyz !#$%&()*+,-./:;<=>?@"
	x := uint32(i)*2654435761 + uint32(k)*40503 + 12345
	b := make([]byte, k)
	for j := range b {
		x = x*1664525 + 1013904223
		b[j] = al[(x>>16)%uint32(len(al))]
	}
	return b
}

// burst: Ops = ["dm"|"qr"], P = [k, n, level, version]: the reference content, then n other contents of the same
// symbol size (so the same generator polynomial is used over and over with varying data), then the
// reference content again: same barcode as the first time, and the generator cache equals the
// reference generators. Data-dependent damage to cached polynomials (an event with probability
// ~1/field size per block) needs hundreds of blocks to show.
func evalBurst(c *core.Ctx, cs *core.Case) {
	k, n := prm(cs, 0), prm(cs, 1)
	mk := func(i int) call {
		if cs.Ops[0] == "dm" {
			return call{"dm", burstContent(k, i), nil}
		}
		return call{"qr", burstContent(k, i), []int{prm(cs, 2), 3}}
	}
	ref := mk(0)
	first, _ := ref.observeSafe()
	if first == "error" || strings.HasPrefix(first, "panic") {
		c.Fail("C15", cs, "%s: %s", ref.pretty(), first)
		return
	}
	// every content is encoded twice, in two different orders (so with different predecessors): what a
	// call returns must not depend on what the previous call left behind. The first 400 are compared.
	m := n
	if m > 400 {
		m = 400
	}
	seen := make([]string, m+1)
	for i := 1; i <= n; i++ {
		c.R.Transitions++
		o, _ := mk(i).observeSafe()
		if o == "error" || strings.HasPrefix(o, "panic") {
			c.Fail("C15", cs, "%s: %s", mk(i).pretty(), o)
			return
		}
		if i <= m {
			seen[i] = o
		}
	}
	for i := m; i >= 1; i -= 2 { // backwards, every second one: other predecessors than in the first pass
		c.R.Transitions++
		if o, _ := mk(i).observeSafe(); o != seen[i] {
			c.Fail("C15", cs, "%s observes %s after %s and %s after %s (the result depends on the call before it)", mk(i).pretty(), seen[i], mk(i-1).pretty(), o, mk(i+2).pretty())
			return
		}
	}
	if again, _ := ref.observeSafe(); again != first {
		c.Fail("C15", cs, "%s observes %s after %d other encodes of the same symbol size, before them %s", ref.pretty(), again, n, first)
		return
	}
	if msg := rsCacheCheck(refField{0x11D, 256}, fieldSpec{0x11D, 256, 0}, qr.VerifCacheState()); msg != "" {
		c.Fail("C15", cs, "qr generator cache after the burst: %s", msg)
	}
	if msg := rsCacheCheck(refField{0x12D, 256}, fieldSpec{0x12D, 256, 1}, datamatrix.VerifCacheState()); msg != "" {
		c.Fail("C15", cs, "datamatrix generator cache after the burst: %s", msg)
	}
}

// pairAlphabets returns, per family, the inputs whose ordered pairs are explored.
func pairAlphabets(thorough bool) map[string][]call {
	al := map[string][]call{}
	add := func(fam string, s []byte, p ...int) { al[fam] = append(al[fam], call{fam, s, p}) }
	// PDF417
	levels := []int{0, 1, 8}
	if thorough {
		levels = []int{0, 1, 2, 3, 4, 5, 6, 7, 8}
	}
	for _, lv := range levels {
		for n := 0; n <= 12; n++ {
			add("pdf", []byte(Filler("ABCDEFGHIJKLMNOPQRSTUVWXYZ ", n)), lv)
		}
		for _, s := range []string{"a", "1", ";", "aB1;& ", "1234567890123", strings.Repeat("7", 44), strings.Repeat("8", 45), "\x80", "\x81\x82\x83\x84\x85\x86", "\x87\x88\x89\x8a\x8b\x8c\x8d", "ab\x80cd;;;;;", "Café au lait", "report", "weekly\xe9report", "abcdef", "xyz\x80abcdef", "ABCDEF", "q\x80ABCDEF"} {
			add("pdf", []byte(s), lv)
		}
	}
	add("pdf", []byte("refused"), 9)
	// QR
	for lvl := 0; lvl < 4; lvl++ {
		for _, s := range []string{"", "1", "0123456789", "A", "HELLO WORLD", "a", "héllo", "12a"} {
			add("qr", []byte(s), lvl, 0)
		}
		add("qr", []byte("0123456789"), lvl, 1)
		add("qr", []byte("12a"), lvl, 1)
		add("qr", []byte("HELLO WORLD"), lvl, 2)
		add("qr", []byte("HELLO WORLD"), lvl, 3)
		for _, v := range []int{1, 2, 7} {
			add("qr", qrFill(1, qrCap(1, lvl, v)), lvl, 1)
			add("qr", qrFill(2, qrCap(2, lvl, v)), lvl, 0)
			add("qr", qrFill(4, qrCap(4, lvl, v)), lvl, 3)
		}
	}
	// the WithColor entry points: same contents under two schemes and plain, incl. larger QR versions
	for _, v := range []int{1, 10, 12} {
		content := qrFill(1, qrCap(1, 0, v))
		for _, fam := range []string{"qr", "qr@6", "qr@7"} {
			al["qr"] = append(al["qr"], call{fam, content, []int{0, 1}})
			al["qr"] = append(al["qr"], call{fam, qrFill(4, qrCap(4, 1, v)), []int{1, 3}})
		}
	}
	for _, fam := range []string{"dm@6", "dm@8"} {
		al["dm"] = append(al["dm"], call{fam, []byte("colour 123"), nil}, call{fam, dmByCodewords(44)[0], nil})
	}
	for _, fam := range []string{"az@6", "az@8"} {
		al["az"] = append(al["az"], call{fam, []byte("colour 123"), []int{33, 0}}, call{fam, azFills[0](100), []int{23, 0}})
	}
	al["pdf"] = append(al["pdf"], call{"pdf@6", []byte("colour 123"), []int{1}}, call{"pdf@8", []byte("colour 123"), []int{1}})
	al["c128"] = append(al["c128"], call{"c128@6", []byte("Ab1"), []int{1}}, call{"c128@8", []byte("Ab1"), []int{0}})
	al["ean"] = append(al["ean"], call{"ean@6", []byte("1234567"), nil}, call{"ean@8", []byte("590123412345"), nil})
	al["c39"] = append(al["c39"], call{"c39@6", []byte("CODE 39"), []int{1, 0}}, call{"c39@8", []byte("a~"), []int{1, 1}})
	al["c93"] = append(al["c93"], call{"c93@6", []byte("CODE 39"), []int{1, 0}}, call{"c93@8", []byte("a~"), []int{1, 1}})
	al["codabar"] = append(al["codabar"], call{"codabar@6", []byte("A1B"), nil})
	al["tof"] = append(al["tof"], call{"tof@6", []byte("12"), []int{1}}, call{"tof@8", []byte("12"), []int{0}})
	// DataMatrix: one or two contents per symbol size
	for i, sz := range dmdec.Sizes {
		add("dm", dmByCodewords(sz.DataCodewords)[0])
		if i%3 == 0 || sz.DataCodewords < 30 {
			add("dm", dmByCodewords(sz.DataCodewords - 1)[4])
		}
	}
	add("az", []byte("Too much for one compact layer 0123456789"), 33, -1)
	add("az", []byte("abc"), 33, 40)
	add("dm", nil)
	add("dm", []byte(Filler("ABCDEFG", 1600)))
	// Aztec
	for _, n := range []int{0, 1, 5, 16, 40, 100, 300} {
		for fi, fill := range azFills {
			if fi == 5 {
				continue
			}
			add("az", fill(n), 23, 0)
		}
		add("az", azFills[0](n), 23, -2)
		add("az", azFills[0](n), 50, 3)
		if n <= 16 {
			// the same payload as a compact and as a full-range symbol of the same layer count
			for _, l := range []int{1, 2, 3, 4} {
				add("az", azFills[1](n), 23, -l)
				add("az", azFills[1](n), 23, l)
			}
		}
	}
	// Scale: the same source to sizes that share a width or a height but not the factor, exact multiples,
	// the identity, and sizes that leave odd padding (anything keyed on one axis or memoised per size pair shows up)
	for _, src := range []string{"qr:SCALE ME", "dm:scale me too", "az:scale"} {
		var n int
		switch src[:2] {
		case "qr":
			n = 21
		case "dm":
			n = 14
		default:
			n = 15
		}
		for _, d := range [][2]int{{n, n}, {2 * n, 2 * n}, {4*n + 3, 4*n + 3}, {4*n + 3, 2*n + 1}, {4*n + 3, 3*n + 2}, {2*n + 1, 4*n + 3}, {3 * n, 4*n + 3}, {n - 1, n}} {
			add("scale", []byte(src), d[0], d[1])
		}
	}
	for _, src := range []string{"c128:Ab1", "ean:1234567"} {
		for _, d := range [][2]int{{200, 1}, {200, 30}, {300, 30}, {150, 30}, {201, 7}, {10, 10}} {
			add("scale", []byte(src), d[0], d[1])
		}
	}
	// linear families
	for ck := 0; ck <= 1; ck++ {
		// the four FNC placeholders in a set-A and in a set-B context (FNC4 has a different value in each)
		for _, f := range []string{fnc1, "\u00f2", "\u00f3", "\u00f4"} {
			add("c128", []byte(f+"\nX"), ck)
			add("c128", []byte(f+"abc"), ck)
		}
		for _, s := range []string{"A", "Ab1", "123456", "\x01x", fnc1 + "1234", "Hello World 0123456789", "ä"} {
			add("c128", []byte(s), ck)
		}
		for full := 0; full <= 1; full++ {
			for _, s := range []string{"A", "CODE 39", "-. $/+%", "0", "a~", "Café", "AB*"} {
				add("c39", []byte(s), ck, full)
				add("c93", []byte(s), ck, full)
			}
		}
	}
	for _, s := range []string{"1234567", "12345670", "12345678", "590123412345", "5901234123457", "0000000", "9999999", "12", "12345a7", "59012341234x", "1234567B", "x234567",
		// prefixes of the 13-digit number above (anything that recognises "the same number again" by a prefix)
		"5901234", "59012344", "59012341", "590123412", "5901234123"} {
		add("ean", []byte(s))
	}
	for _, s := range []string{"AB", "A1B", "C0123456789-$:/.+D", "A12E", "D9A"} {
		add("codabar", []byte(s))
	}
	for inter := 0; inter <= 1; inter++ {
		for _, s := range []string{"1", "12", "12345670", "0246", "98765432109876", "12a4", "123"} {
			add("tof", []byte(s), inter)
		}
	}
	return al
}

// qrCollisionPairs returns pairs of QR calls at the same level whose payloads have the same
// number of payload bits in different modes but need different versions: inputs that look the
// same to anything keyed on (level, bit count) and must still be told apart.
func qrCollisionPairs(maxVersion int) [][2]call {
	var out [][2]call
	modes := []struct{ ref, enc int }{{1, 1}, {2, 2}, {4, 3}}
	for lvl := 0; lvl < 4; lvl++ {
		for v := 1; v <= maxVersion; v++ {
			for _, m1 := range modes {
				for _, m2 := range modes {
					if m1.ref == m2.ref {
						continue
					}
					found := false
					c1 := qrCap(m1.ref, lvl, v)
					for n1 := c1; n1 > c1-6 && n1 > 0 && !found; n1-- {
						b1 := qrdec.PayloadBits(m1.ref, n1)
						c2 := qrCap(m2.ref, lvl, v)
						for n2 := c2 + 4; n2 > c2-6 && n2 > 0; n2-- {
							if qrdec.PayloadBits(m2.ref, n2) != b1 {
								continue
							}
							if qrdec.MinVersion(m1.ref, lvl, n1) != qrdec.MinVersion(m2.ref, lvl, n2) && qrdec.MinVersion(m2.ref, lvl, n2) != 0 {
								out = append(out, [2]call{{"qr", qrFill(m1.ref, n1), []int{lvl, m1.enc}}, {"qr", qrFill(m2.ref, n2), []int{lvl, m2.enc}}})
								found = true
								break
							}
						}
					}
				}
			}
		}
	}
	return out
}

func pairSweep(c *core.Ctx) {
	T := c.Thorough()
	al := pairAlphabets(T)
	var nPairs int64
	for _, fam := range core.SortedKeys(al) {
		calls := al[fam]
		for _, a := range calls {
			for _, b := range calls {
				nPairs++
				Run(c, &core.Case{Fam: "pair", Ops: []string{a.String(), b.String()}})
			}
		}
		c.R.State(fmt.Sprintf("pair alphabet %s: %d inputs", fam, len(calls)))
	}
	coll := qrCollisionPairs(pick(c, 12, 40))
	for _, p := range coll {
		Run(c, &core.Case{Fam: "pair", Ops: []string{p[0].String(), p[1].String()}})
		Run(c, &core.Case{Fam: "pair", Ops: []string{p[1].String(), p[0].String()}})
	}
	c.R.Bound("pairs", fmt.Sprintf("all ordered pairs of inputs within each family alphabet (%d pairs over 10 encoder families and Scale) plus %d QR cross-mode payload-bit collision pairs in both orders; second observation, first observation and the first barcode re-observed after the second call are compared with fresh-process observations", nPairs, len(coll)))
	// bursts: many different contents of one symbol size in one process (one generator polynomial, varying data)
	var nBurst int64
	for _, sz := range dmdec.Sizes {
		blocks := (sz.DataCodewords + 174) / 175 // at most 175 data codewords per block
		if blocks < 1 {
			blocks = 1
		}
		n := pick(c, 2400, 8000) / blocks
		nBurst++
		Run(c, &core.Case{Fam: "burst", Ops: []string{"dm"}, P: []int{sz.DataCodewords, n}})
	}
	seenEC := map[int]bool{}
	for v := 1; v <= 40; v++ {
		for l := 0; l < 4; l++ {
			_, _, _, _, ec := qrdec.BlockLayout(v, l)
			if seenEC[ec] {
				continue
			}
			seenEC[ec] = true
			nBurst++
			Run(c, &core.Case{Fam: "burst", Ops: []string{"qr"}, P: []int{qrCap(4, l, v), pick(c, 1200, 4000), l, v}})
		}
	}
	c.R.Bound("bursts", fmt.Sprintf("%d bursts: for every DataMatrix size and every distinct QR check-codewords-per-block value, a reference content, then 1 200-8 000 block encodes of other contents of the same symbol size, then the reference content again (same barcode, generator caches equal the reference generators)", nBurst))
	// determinism sweep: many short QR payloads, each repeated in place (equal-penalty masks, ties in searches)
	reps := 6
	var nDet int64
	Words(letters("0123456789"), 1, 3, func(w string, _ int) bool {
		for _, lm := range [][2]int{{0, 0}, {1, 0}, {3, 1}} {
			nDet++
			Run(c, &core.Case{Fam: "det", Ops: []string{call{"qr", []byte(w), []int{lm[0], lm[1]}}.String()}, P: []int{reps}})
		}
		return true
	})
	Words(letters("AZ $%*+-./:09"), 1, 2, func(w string, _ int) bool {
		nDet++
		Run(c, &core.Case{Fam: "det", Ops: []string{call{"qr", []byte(w), []int{2, 0}}.String()}, P: []int{reps}})
		return true
	})
	Words(azClass, 1, 3, func(w string, _ int) bool {
		nDet++
		Run(c, &core.Case{Fam: "det", Ops: []string{call{"az", []byte(w), []int{33, 0}}.String()}, P: []int{reps}})
		return true
	})
	Words(pdfClass, 1, 3, func(w string, _ int) bool {
		nDet++
		Run(c, &core.Case{Fam: "det", Ops: []string{call{"pdf", []byte(w), []int{1}}.String()}, P: []int{reps}})
		return true
	})
	c.R.Bound("determinism", fmt.Sprintf("%d short QR / Aztec / PDF417 payloads, each encoded %d times in place", nDet, reps))
}

// snap: Ops = [a, b]: a is encoded and examined by its family's evaluator, b is encoded, and then
// the very barcode object returned for a is examined again: it must still satisfy the property.
func evalSnap(c *core.Ctx, cs *core.Case) {
	a, e1 := parseCall(cs.Ops[0])
	b, e2 := parseCall(cs.Ops[1])
	if e1 != nil || e2 != nil {
		return
	}
	sub := func(k call, reuse any) (fs []core.Finding, last any) {
		saved := c.R
		c.R = core.NewReport()
		c.Last, c.Reuse = nil, reuse
		Safely(func() { Evaluators[k.fam](c, &core.Case{Fam: k.fam, S: k.s, P: k.p}) })
		fs, last = c.R.Findings, c.Last
		c.Reuse = nil
		c.R = saved
		return
	}
	fa, bcA := sub(a, nil)
	if len(fa) > 0 || bcA == nil {
		return // a itself is refused or already faulty: judged by the plain cases
	}
	sub(b, nil)
	c.R.Transitions += 3
	again, _ := sub(a, bcA)
	for _, f := range again {
		c.Fail(f.Prop, cs, "the barcode returned for %s no longer satisfies the property after %s was encoded: %s", a.pretty(), b.pretty(), f.Msg)
	}
}

func init() {
	Evaluators["snap"] = evalSnap
	Evaluators["pair"] = evalPair
	Evaluators["det"] = evalDet
	Evaluators["burst"] = evalBurst
}

// seqPairs executes, for every ordered pair (a, b) of the family's pair alphabet, the family's
// evaluator on a and then on b in the same process: the round-trip properties quantify over every
// call, whatever was encoded before. A finding on b carries a as recorded history.
func seqPairs(c *core.Ctx, fams ...string) {
	al := pairAlphabets(c.Thorough())
	for _, fam := range fams {
		var calls []call
		for _, k := range al[fam] {
			if !strings.Contains(k.fam, "@") { // the family evaluators drive the plain entry points
				calls = append(calls, k)
			}
		}
		for _, a := range calls {
			for _, b := range calls {
				if !c.Mine() {
					continue
				}
				Exec(c, &core.Case{Fam: a.fam, S: a.s, P: a.p})
				Exec(c, &core.Case{Fam: b.fam, S: b.s, P: b.p})
				Exec(c, &core.Case{Fam: "snap", Ops: []string{a.String(), b.String()}})
			}
		}
		c.R.Bound("history_pairs_"+fam, fmt.Sprintf("all ordered pairs of %d inputs, second call judged after the first in the same process", len(calls)))
	}
}
