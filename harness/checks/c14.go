package checks

import (
	"fmt"

	"github.com/boombuler/barcode"
	"github.com/boombuler/barcode/code128"
	"github.com/boombuler/barcode/code39"
	"github.com/boombuler/barcode/ean"

	"verif/core"
)

// csscale: S = content, P = [family]: CheckSum() must survive 1..3 rounds of Scale.
// family 0 = EAN, 1 = Code 128, 2 = Code 39 with check character, 3 = Code 39 without.
func evalCSScale(c *core.Ctx, cs *core.Case) {
	s := string(cs.S)
	var bc barcode.BarcodeIntCS
	var err error
	if p, w := Safely(func() {
		if k := prm(cs, 1); k > 0 {
			// the WithColor entry point under colour scheme k-1 of renderSchemes (non-white backgrounds included)
			sc := renderSchemes[(k-1)%len(renderSchemes)].sc
			switch prm(cs, 0) {
			case 0:
				bc, err = ean.EncodeWithColor(s, sc)
			case 1:
				bc, err = code128.EncodeWithColor(s, sc)
			case 2:
				bc, err = code39.EncodeWithColor(s, true, false, sc)
			default:
				bc, err = code39.EncodeWithColor(s, false, false, sc)
			}
			return
		}
		switch prm(cs, 0) {
		case 0:
			bc, err = ean.Encode(s)
		case 1:
			bc, err = code128.Encode(s)
		case 2:
			bc, err = code39.Encode(s, true, false)
		default:
			bc, err = code39.Encode(s, false, false)
		}
	}); p {
		c.Fail("C10", cs, "encoder panicked: %s", w)
		return
	}
	if err != nil || bc == nil {
		c.R.Rejected++
		return
	}
	c.R.Accepted++
	want := bc.CheckSum()
	// all sequences of up to three scaling operations over the relative alphabet {W, 2W+1}
	var rec func(cur barcode.Barcode, depth int, path []int)
	rec = func(cur barcode.Barcode, depth int, path []int) {
		if depth == 3 {
			return
		}
		w := cur.Bounds().Dx()
		for _, nw := range []int{w, 2*w + 1} {
			var nb barcode.Barcode
			var e error
			if p, wt := Safely(func() { nb, e = barcode.Scale(cur, nw, 1+depth) }); p {
				c.Fail("C14", cs, "Scale panicked after %v: %s", path, wt)
				return
			}
			c.R.Transitions++
			np := append(append([]int(nil), path...), nw)
			if e != nil || nb == nil {
				c.Fail("C14", cs, "Scale to widths %v failed: %v", np, e)
				continue
			}
			ics, ok := nb.(barcode.BarcodeIntCS)
			if !ok {
				c.Fail("C14", cs, "after scaling to widths %v the barcode no longer exposes CheckSum()", np)
				continue
			}
			if got := ics.CheckSum(); got != want {
				c.Fail("C14", cs, "CheckSum() = %d after scaling to widths %v, %d before", got, np, want)
			}
			rec(nb, depth+1, np)
		}
	}
	rec(bc, 0, nil)
}

func c14Body(c *core.Ctx) {
	T := c.Thorough()
	enumEAN(c, T, T)
	enumC128(c, pick(c, 5, 6), 2, pick(c, 4, 5))
	enumC39C93(c, []string{"c39"}, pick(c, 2, 3))
	// scaling rounds on a fixed sub-family
	Words(letters("0123456789"), 7, 7, func(w string, _ int) bool {
		if w[0] != '4' || w[1] != '0' || w[2] != '0' {
			return true
		}
		Run(c, &core.Case{Fam: "csscale", S: []byte(w), P: []int{0}})
		return true
	})
	for _, s := range []string{"400638133393", "4006381333931", "590123412345", "12345670"} {
		Run(c, &core.Case{Fam: "csscale", S: []byte(s), P: []int{0}})
	}
	Words(c128Full(), 1, 2, func(w string, _ int) bool {
		Run(c, &core.Case{Fam: "csscale", S: []byte(w), P: []int{1}})
		return true
	})
	Words(letters("0123456789ABCDEFGHIJKLMNOPQRSTUVWXYZ-. $/+%"), 1, 2, func(w string, _ int) bool {
		Run(c, &core.Case{Fam: "csscale", S: []byte(w), P: []int{2}})
		Run(c, &core.Case{Fam: "csscale", S: []byte(w), P: []int{3}})
		return true
	})
	// the same rounds behind every WithColor entry point, all colour schemes
	for k := 1; k <= len(renderSchemes); k++ {
		for _, sp := range []struct {
			s   string
			fam int
		}{{"4006381", 0}, {"590123412345", 0}, {"Ab1", 1}, {"\x01~", 1}, {"CODE 39", 2}, {"A+", 2}, {"CODE 39", 3}} {
			Run(c, &core.Case{Fam: "csscale", S: []byte(sp.s), P: []int{sp.fam, k}})
		}
	}
	c.R.Bound("scale_rounds_colour", fmt.Sprintf("the same sequences for 7 contents behind the WithColor entry points under each of %d colour schemes", len(renderSchemes)))
	c.R.Bound("ean", "as C06 for this tier")
	c.R.Bound("code128", "class words, full-alphabet words <= 2, macro words, length grid (with checksum)")
	c.R.Bound("code39", "full-alphabet words and weight-period strings, all four option mixes")
	c.R.Bound("scale_rounds", "all sequences of 1..3 Scale operations over widths {W, 2W+1} on EAN (10^4 + 4 inputs), Code 128 (words <= 2 over 134 letters), Code 39 (words <= 2, with and without check character)")
	for _, s := range []string{"EAN 8", "EAN 13", "Code 128", "Code 39 check", "Code 39 plain", "scaled x1", "scaled x2", "scaled x3"} {
		c.R.State(s)
	}
	c.R.Sample(map[string]any{"encoder": "ean", "code": "1234567", "expect": "CheckSum()==0 == last digit of Content()"})
	c.R.Sample(map[string]any{"encoder": "code39", "content": "AB", "expect": "CheckSum()==21 ((10+11) mod 43), drawn check character 'L' when requested"})
}

func init() {
	Evaluators["csscale"] = evalCSScale
	register(&Check{ID: "C14", Engine: "E+B", Body: c14Body,
		Rule:        "the EAN, Code 128 and Code 39 enumerations of C06/C05/C07 with the oracle CheckSum() == reference check value == value of the decoded check character; plus, on a fixed sub-family, every sequence of 1..3 Scale operations (widths W, 2W+1), after each of which the result must still expose CheckSum() with the same value",
		Assumptions: []string{"small-scope bounds as in C05-C07", "reference check values computed by harness/oracle/lin1d"}})
}
