package checks

// Words calls fn with every word of length minLen..maxLen over alpha (letters may be
// multi-byte strings), shortest first, in odometer order. fn returns false to stop.
func Words(alpha []string, minLen, maxLen int, fn func(w string, length int) bool) bool {
	for n := minLen; n <= maxLen; n++ {
		if n == 0 {
			if !fn("", 0) {
				return false
			}
			continue
		}
		idx := make([]int, n)
		buf := make([]byte, 0, 8*n)
		for {
			buf = buf[:0]
			for _, i := range idx {
				buf = append(buf, alpha[i]...)
			}
			if !fn(string(buf), n) {
				return false
			}
			k := n - 1
			for k >= 0 {
				idx[k]++
				if idx[k] < len(alpha) {
					break
				}
				idx[k] = 0
				k--
			}
			if k < 0 {
				break
			}
		}
	}
	return true
}

// CountWords returns the number of words Words would produce.
func CountWords(nAlpha, minLen, maxLen int) int64 {
	var t int64
	for n := minLen; n <= maxLen; n++ {
		p := int64(1)
		for i := 0; i < n; i++ {
			p *= int64(nAlpha)
		}
		t += p
	}
	return t
}

// Filler returns a deterministic string of n letters that depends on n.
func Filler(alpha string, n int) string {
	b := make([]byte, n)
	for i := range b {
		b[i] = alpha[(i*i+n+i/7)%len(alpha)]
	}
	return string(b)
}

func asciiRange(lo, hi int) []string {
	var out []string
	for c := lo; c <= hi; c++ {
		out = append(out, string([]byte{byte(c)}))
	}
	return out
}

func letters(s string) []string {
	var out []string
	for _, r := range s {
		out = append(out, string(r))
	}
	return out
}
