package checks

import (
	"fmt"
	"image"
	"image/color"
	"strconv"
	"strings"

	"github.com/boombuler/barcode"
	"github.com/boombuler/barcode/aztec"
	"github.com/boombuler/barcode/codabar"
	"github.com/boombuler/barcode/code128"
	"github.com/boombuler/barcode/code39"
	"github.com/boombuler/barcode/code93"
	"github.com/boombuler/barcode/datamatrix"
	"github.com/boombuler/barcode/ean"
	"github.com/boombuler/barcode/pdf417"
	"github.com/boombuler/barcode/qr"
	"github.com/boombuler/barcode/twooffive"

	"verif/core"
)

// customScheme is a non-grey RGBA scheme used for the WithColor variants.
var customScheme = barcode.ColorScheme{
	Model:      color.RGBAModel,
	Background: color.RGBA{250, 240, 10, 255},
	Foreground: color.RGBA{10, 20, 200, 255},
}

type scaleSource struct {
	name string
	mk   func(custom bool) (barcode.Barcode, error)
}

func up(b barcode.BarcodeIntCS, e error) (barcode.Barcode, error) {
	if b == nil {
		return nil, e
	}
	return b, e
}

var scaleSources = []scaleSource{
	{"ean8", func(cu bool) (barcode.Barcode, error) {
		if cu {
			return up(ean.EncodeWithColor("1234567", customScheme))
		}
		return up(ean.Encode("1234567"))
	}},
	{"ean13", func(cu bool) (barcode.Barcode, error) {
		if cu {
			return up(ean.EncodeWithColor("590123412345", customScheme))
		}
		return up(ean.Encode("590123412345"))
	}},
	{"code128", func(cu bool) (barcode.Barcode, error) {
		if cu {
			return up(code128.EncodeWithColor("A1", customScheme))
		}
		return up(code128.Encode("A1"))
	}},
	{"code128-nocheck", func(cu bool) (barcode.Barcode, error) {
		if cu {
			return code128.EncodeWithoutChecksumWithColor("A1", customScheme)
		}
		return code128.EncodeWithoutChecksum("A1")
	}},
	{"code39", func(cu bool) (barcode.Barcode, error) {
		if cu {
			return up(code39.EncodeWithColor("K", true, false, customScheme))
		}
		return up(code39.Encode("K", true, false))
	}},
	{"code93", func(cu bool) (barcode.Barcode, error) {
		if cu {
			return code93.EncodeWithColor("A", true, false, customScheme)
		}
		return code93.Encode("A", true, false)
	}},
	{"2of5", func(cu bool) (barcode.Barcode, error) {
		if cu {
			return twooffive.EncodeWithColor("12", false, customScheme)
		}
		return twooffive.Encode("12", false)
	}},
	{"2of5i", func(cu bool) (barcode.Barcode, error) {
		if cu {
			return twooffive.EncodeWithColor("12", true, customScheme)
		}
		return twooffive.Encode("12", true)
	}},
	{"codabar", func(cu bool) (barcode.Barcode, error) {
		if cu {
			return codabar.EncodeWithColor("A1B", customScheme)
		}
		return codabar.Encode("A1B")
	}},
	{"qr", func(cu bool) (barcode.Barcode, error) {
		if cu {
			return qr.EncodeWithColor("1", qr.L, qr.Auto, customScheme)
		}
		return qr.Encode("1", qr.L, qr.Auto)
	}},
	{"datamatrix", func(cu bool) (barcode.Barcode, error) {
		if cu {
			return datamatrix.EncodeWithColor("A", customScheme)
		}
		return datamatrix.Encode("A")
	}},
	{"aztec", func(cu bool) (barcode.Barcode, error) {
		if cu {
			return aztec.EncodeWithColor([]byte("A"), 33, 0, customScheme)
		}
		return aztec.Encode([]byte("A"), 33, 0)
	}},
	{"pdf417", func(cu bool) (barcode.Barcode, error) {
		if cu {
			return pdf417.EncodeWithColor("A", 0, customScheme)
		}
		return pdf417.Encode("A", 0)
	}},
	// large sources (>= 100 modules in a dimension): explored on a sparse window around the
	// multiples of their size, where size-dependent arithmetic shows
	{"LARGE code128", func(cu bool) (barcode.Barcode, error) {
		if cu {
			return up(code128.EncodeWithColor("Large Code 128 symbol", customScheme))
		}
		return up(code128.Encode("Large Code 128 symbol"))
	}},
	{"LARGE codabar", func(cu bool) (barcode.Barcode, error) {
		if cu {
			return codabar.EncodeWithColor("A0123456789-$:/.+0123456789B", customScheme)
		}
		return codabar.Encode("A0123456789-$:/.+0123456789B")
	}},
	{"LARGE qr", func(cu bool) (barcode.Barcode, error) {
		c := string(qrFill(2, qrCap(2, 1, 23)))
		if cu {
			return qr.EncodeWithColor(c, qr.M, qr.AlphaNumeric, customScheme)
		}
		return qr.Encode(c, qr.M, qr.AlphaNumeric)
	}},
	{"LARGE datamatrix", func(cu bool) (barcode.Barcode, error) {
		c := string(dmByCodewords(1000)[0])
		if cu {
			return datamatrix.EncodeWithColor(c, customScheme)
		}
		return datamatrix.Encode(c)
	}},
	{"LARGE pdf417", func(cu bool) (barcode.Barcode, error) {
		c := Filler("aB1;& ,z\nQ:x", 700)
		if cu {
			return pdf417.EncodeWithColor(c, 3, customScheme)
		}
		return pdf417.Encode(c, 3)
	}},
}

// sparse returns the sizes within +-2 of n, 2n and 3n (and 1).
func sparse(n int) []int {
	out := []int{1}
	for k := 1; k <= 3; k++ {
		for d := -2; d <= 2; d++ {
			if v := k*n + d; v > 1 {
				out = append(out, v)
			}
		}
	}
	return out
}

// scaleModel is the arithmetic reference image.
type scaleModel struct {
	w, h      int
	pix       []color.Color // row-major
	dims      byte
	hasScheme bool
	bg        color.Color
	hasCS     bool
	cs        int
	content   string
	meta      barcode.Metadata
}

func snapshot(bc barcode.Barcode) *scaleModel {
	b := bc.Bounds()
	m := &scaleModel{w: b.Dx(), h: b.Dy(), dims: bc.Metadata().Dimensions, content: bc.Content(), meta: bc.Metadata()}
	m.pix = make([]color.Color, m.w*m.h)
	for y := 0; y < m.h; y++ {
		for x := 0; x < m.w; x++ {
			m.pix[y*m.w+x] = bc.At(b.Min.X+x, b.Min.Y+y)
		}
	}
	if v, ok := bc.(barcode.BarcodeColor); ok {
		m.hasScheme, m.bg = true, v.ColorScheme().Background
	}
	if v, ok := bc.(barcode.BarcodeIntCS); ok {
		m.hasCS, m.cs = true, v.CheckSum()
	}
	return m
}

var (
	fillOpaque      = color.RGBA{200, 30, 40, 255}
	fillTranslucent = color.NRGBA{5, 250, 90, 77}
)

func (m *scaleModel) fillFor(kind int) color.Color {
	switch kind {
	case 1:
		return fillOpaque
	case 2:
		return fillTranslucent
	}
	if m.hasScheme {
		return m.bg
	}
	return color.White
}

// scaled computes the reference result; ok=false means the request must be refused.
// ceilX/ceilY select the other admissible centring (offset rounded up instead of down).
func (m *scaleModel) scaled(w, h int, fill color.Color, ceilX, ceilY bool) (*scaleModel, bool) {
	f := w / m.w
	if m.dims != 1 {
		if fy := h / m.h; fy < f {
			f = fy
		}
	}
	if f < 1 {
		return nil, false
	}
	ox := (w - f*m.w) / 2
	if ceilX {
		ox = (w - f*m.w + 1) / 2
	}
	oy := 0
	if m.dims != 1 {
		oy = (h - f*m.h) / 2
		if ceilY {
			oy = (h - f*m.h + 1) / 2
		}
	}
	r := &scaleModel{w: w, h: h, dims: m.dims, hasScheme: false, hasCS: m.hasCS, cs: m.cs, content: m.content, meta: m.meta}
	r.pix = make([]color.Color, w*h)
	for y := 0; y < h; y++ {
		for x := 0; x < w; x++ {
			c := fill
			if x >= ox && x < ox+f*m.w {
				if m.dims == 1 {
					c = m.pix[(x-ox)/f]
				} else if y >= oy && y < oy+f*m.h {
					c = m.pix[((y-oy)/f)*m.w+(x-ox)/f]
				}
			}
			r.pix[y*w+x] = c
		}
	}
	return r, true
}

func parseScaleOp(op string) (w, h, fill int) {
	p := strings.Split(op, ",")
	w, _ = strconv.Atoi(p[0])
	h, _ = strconv.Atoi(p[1])
	fill, _ = strconv.Atoi(p[2])
	return
}

func diffPix(real barcode.Barcode, m *scaleModel) (int, int, bool) {
	for y := 0; y < m.h; y++ {
		for x := 0; x < m.w; x++ {
			if real.At(x, y) != m.pix[y*m.w+x] {
				return x, y, true
			}
		}
	}
	return 0, 0, false
}

// scale: P = [source, customScheme], Ops = chain of "w,h,fill". The chain is applied to the
// real barcode and to the arithmetic model; the final step is compared pixel by pixel.
func evalScale(c *core.Ctx, cs *core.Case) {
	src := scaleSources[cs.P[0]]
	var real barcode.Barcode
	var err error
	if p, w := Safely(func() { real, err = src.mk(cs.P[1] == 1) }); p || err != nil || real == nil {
		c.Fail("C09", cs, "cannot build source %s: %v %s", src.name, err, w)
		return
	}
	model := snapshot(real)
	for i, op := range cs.Ops {
		w, h, fk := parseScaleOp(op)
		fill := model.fillFor(fk)
		var nb barcode.Barcode
		var e error
		if p, wt := Safely(func() {
			if fk == 0 {
				nb, e = barcode.Scale(real, w, h)
			} else {
				nb, e = barcode.ScaleWithFill(real, w, h, fill)
			}
		}); p {
			c.Fail("C09", cs, "step %d %s: Scale panicked: %s", i, op, wt)
			c.Fail("C10", cs, "step %d %s: Scale panicked: %s", i, op, wt)
			return
		}
		c.R.Transitions++
		nm, okm := model.scaled(w, h, fill, false, false)
		if !okm {
			c.R.Rejected++
			if e == nil {
				c.Fail("C09", cs, "step %d: scaling a %dx%d symbol to %dx%d must fail but returned a barcode", i, model.w, model.h, w, h)
			} else if nb != nil {
				c.Fail("C09", cs, "step %d: error together with a non-nil barcode", i)
			}
			return
		}
		c.R.Accepted++
		if e != nil || nb == nil {
			c.Fail("C09", cs, "step %d: scaling a %dx%d symbol to %dx%d must succeed: %v", i, model.w, model.h, w, h, e)
			return
		}
		if i < len(cs.Ops)-1 {
			real, model = nb, nm
			continue
		}
		// final step: full comparison
		if b := nb.Bounds(); b != image.Rect(0, 0, w, h) {
			c.Fail("C09", cs, "bounds %v, want (0,0)-(%d,%d)", b, w, h)
			return
		}
		x, y, bad := diffPix(nb, nm)
		if bad {
			// the property allows either rounding of the centring offset
			okAlt := false
			for _, alt := range [][2]bool{{true, false}, {false, true}, {true, true}} {
				am, _ := model.scaled(w, h, fill, alt[0], alt[1])
				if _, _, b2 := diffPix(nb, am); !b2 {
					okAlt = true
					break
				}
			}
			if !okAlt {
				c.Fail("C09", cs, "pixel (%d,%d) is %v, reference model (factor %d, centred) has %v", x, y, nb.At(x, y), w/model.w, nm.pix[y*nm.w+x])
			}
		}
		if nb.Content() != model.content || nb.Metadata() != model.meta {
			c.Fail("C09", cs, "Content/Metadata changed by scaling: %q %+v, source %q %+v", nb.Content(), nb.Metadata(), model.content, model.meta)
		}
		if model.hasCS {
			if v, ok := nb.(barcode.BarcodeIntCS); !ok {
				c.Fail("C09", cs, "source exposes CheckSum() but the scaled barcode does not")
			} else if v.CheckSum() != model.cs {
				c.Fail("C09", cs, "CheckSum() %d after scaling, %d before", v.CheckSum(), model.cs)
			}
		}
		c.R.Count("scale.pixels_compared", int64(w*h))
		c.R.State(fmt.Sprintf("%s/%d depth%d f=%d", src.name, cs.P[1], len(cs.Ops), w/model.w))
	}
}

func sop(w, h, f int) string { return fmt.Sprintf("%d,%d,%d", w, h, f) }

func c09Body(c *core.Ctx) {
	T := c.Thorough()
	for si, src := range scaleSources {
		for scheme := 0; scheme < 2; scheme++ {
			bc, err := src.mk(scheme == 1)
			if err != nil || bc == nil {
				if c.Shard == 0 {
					c.Fail("C09", &core.Case{Fam: "scale", P: []int{si, scheme}}, "cannot build source %s: %v", src.name, err)
				}
				continue
			}
			W, H := bc.Bounds().Dx(), bc.Bounds().Dy()
			oneD := bc.Metadata().Dimensions == 1
			P := []int{si, scheme}
			if strings.HasPrefix(src.name, "LARGE") {
				hsL := []int{1, 4}
				if !oneD {
					hsL = sparse(H)
				}
				for _, w := range sparse(W) {
					for _, h := range hsL {
						for f := 0; f < 3; f++ {
							if !T && f == 2 {
								continue
							}
							Run(c, &core.Case{Fam: "scale", P: P, Ops: []string{sop(w, h, f)}})
						}
					}
				}
				continue
			}
			// depth 1: the full window
			hs := []int{}
			if oneD {
				hs = []int{1, 2, 3, 7}
			} else {
				for h := 1; h <= 3*H+2; h++ {
					hs = append(hs, h)
				}
			}
			for w := 1; w <= 3*W+2; w++ {
				for _, h := range hs {
					for f := 0; f < 3; f++ {
						Run(c, &core.Case{Fam: "scale", P: P, Ops: []string{sop(w, h, f)}})
					}
				}
			}
			// depth 2 and 3: chains over sizes relative to the current size
			rel := func(n int) []int { return []int{n - 1, n, n + 1, 2*n - 1, 2 * n, 2*n + 1, 3*n + 2} }
			first := func(n int) []int { return []int{n, n + 1, 2*n - 1, 2 * n, 2*n + 1} }
			hs1 := []int{1, 3}
			if !oneD {
				hs1 = first(H)
			}
			for _, w1 := range first(W) {
				for _, h1 := range hs1 {
					hs2 := []int{1, 2, h1 + 1}
					if !oneD {
						hs2 = rel(h1)
					}
					for _, w2 := range rel(w1) {
						for _, h2 := range hs2 {
							for _, fk := range [][2]int{{0, 0}, {1, 2}, {2, 0}} {
								ops := []string{sop(w1, h1, fk[0]), sop(w2, h2, fk[1])}
								Run(c, &core.Case{Fam: "scale", P: P, Ops: ops})
								if !T || w2 < w1 || (!oneD && h2 < h1) || w2 > 2*w1+1 {
									continue
								}
								hs3 := []int{1, h2 + 2}
								if !oneD {
									hs3 = []int{h2, h2 + 1, 2*h2 + 1}
								}
								for _, w3 := range []int{w2, w2 + 1, 2*w2 + 1} {
									for _, h3 := range hs3 {
										Run(c, &core.Case{Fam: "scale", P: P, Ops: append(append([]string(nil), ops...), sop(w3, h3, fk[0]))})
									}
								}
							}
						}
					}
				}
			}
		}
	}
	c.R.Bound("sources", fmt.Sprintf("%d smallest symbols (one per encoder entry family) x {default scheme, RGBA scheme via WithColor}", len(scaleSources)))
	c.R.Bound("large_sources", "5 symbols with >= 100 modules in a dimension (Code 128 255, Codabar, QR v23 109x109, DataMatrix 120x120, PDF417): sizes within +-2 of 1x, 2x, 3x in each dimension")
	c.R.Bound("depth1", "full window w in 1..3W+2, h in 1..3H+2 (1D: h in {1,2,3,7}) x fills {default, opaque RGBA, translucent NRGBA}")
	c.R.Bound("depth2", "from 25 (1D: 10) depth-1 states around factors 1 and 2, sizes {n-1,n,n+1,2n-1,2n,2n+1,3n+2} relative to the current size, 3 fill combinations")
	if T {
		c.R.Bound("depth3", "from every non-shrinking depth-2 state with w2 <= 2*w1+1: sizes {n,n+1,2n+1}")
	}
	c.R.Sample(map[string]any{"source": "qr/default", "ops": []string{"43,44,0", "87,90,2"}, "oracle": "every pixel == integer-factor, centred reference model; Content/Metadata/CheckSum preserved"})
}

func init() {
	Evaluators["scale"] = evalScale
	register(&Check{ID: "C09", Engine: "B", Body: c09Body,
		Rule: "breadth-first exploration of chains of Scale/ScaleWithFill operations (depth 1: full size window; depth 2-3: sizes relative to the current size) from one smallest symbol per encoder family under two colour schemes; each chain is executed on the real barcode and on an integer arithmetic reference model; error/non-error must agree at every step and every pixel, bounds, Content, Metadata and CheckSum at the last step. A state is a distinct (source, scheme, depth, factor).",
		Assumptions: []string{
			"the reference model uses integer arithmetic only; either rounding of an odd centring margin is accepted (the property demands centring to within one pixel)",
			"sources are the smallest symbol of each family: Scale never looks at module values, only at bounds, dimensionality and accessors",
			"requests with width or height < 1 are outside the property",
		}})
}
