package checks

import (
	"bytes"
	"fmt"
	"strings"

	"verif/core"
)

const (
	fnc1 = "ñ"
	fnc2 = "ò"
	fnc3 = "ó"
	fnc4 = "ô"
)

func pick(c *core.Ctx, q, t int) int {
	if c.Thorough() {
		return t
	}
	return q
}

// ---- C05 Code 128 ---------------------------------------------------------------

var c128Class = []string{"1", "5", "A", "a", "\r", fnc1, fnc2, "ä"}
var c128Macro = []string{"12", "1234", "7", "AB", "ab", "\r\n", fnc1, fnc4, "~"}

func c128Full() []string {
	a := asciiRange(0, 127)
	return append(a, fnc1, fnc2, fnc3, fnc4, "ä", "\xff")
}

func enumC128(c *core.Ctx, classLen, fullLen, macroLen int) {
	for ck := 1; ck >= 0; ck-- {
		P := []int{ck}
		Words(c128Class, 0, classLen, func(w string, _ int) bool {
			Run(c, &core.Case{Fam: "c128", S: []byte(w), P: P})
			return true
		})
		Words(c128Full(), 1, fullLen, func(w string, _ int) bool {
			Run(c, &core.Case{Fam: "c128", S: []byte(w), P: P})
			return true
		})
		Words(c128Macro, 2, macroLen, func(w string, _ int) bool {
			Run(c, &core.Case{Fam: "c128", S: []byte(w), P: P})
			return true
		})
		// length grid 1..82: the 80-rune rule and the growth of the checksum weights
		for n := 1; n <= 82; n++ {
			for _, al := range []string{"0123456789", "ABC XYZ", "abc~xyz", "\x01\x1f\r", "A1b2\x033", fnc1 + "12", "é"} {
				r := []rune(al)
				var b strings.Builder
				for i := 0; i < n; i++ {
					b.WriteRune(r[(i*i+n+i/5)%len(r)])
				}
				Run(c, &core.Case{Fam: "c128", S: []byte(b.String()), P: P})
			}
			// digit runs of every parity embedded in text
			Run(c, &core.Case{Fam: "c128", S: []byte("A" + Filler("0123456789", n)), P: P})
			Run(c, &core.Case{Fam: "c128", S: []byte(Filler("0123456789", n) + "a"), P: P})
		}
	}
}

func c05Body(c *core.Ctx) {
	defer seqPairs(c, "c128")
	cl, fl, ml := pick(c, 7, 8), pick(c, 2, 3), pick(c, 5, 6)
	enumC128(c, cl, fl, ml)
	c.R.Bound("class_words", fmt.Sprintf("all words <= %d over %q", cl, c128Class))
	c.R.Bound("full_alphabet_words", fmt.Sprintf("all words <= %d over 134 letters (ASCII 0..127, FNC1-4, 'ä', 0xFF)", fl))
	c.R.Bound("macro_words", fmt.Sprintf("all words of 2..%d chunks over %q", ml, c128Macro))
	c.R.Bound("length_grid", "lengths 1..82 x 9 fillers")
	c.R.Sample(map[string]any{"content": "1" + fnc1 + "55a", "variant": "with checksum", "oracle": "11-module patterns -> values -> code sets A/B/C -> runes == content; check character == (start + sum i*v) mod 103"})
}

// ---- C06 EAN ----------------------------------------------------------------------

func digitsN(v, n int) []byte {
	b := make([]byte, n)
	for i := n - 1; i >= 0; i-- {
		b[i] = byte('0' + v%10)
		v /= 10
	}
	return b
}

func enumEAN(c *core.Ctx, all8 bool, family3 bool) {
	// all 10^7 seven-digit strings
	for v := 0; v < 10000000; v++ {
		if !c.Mine() {
			continue
		}
		Exec(c, &core.Case{Fam: "ean", S: digitsN(v, 7)})
	}
	// eight-digit strings
	for v := 0; v < 10000000; v++ {
		if !all8 && v%10 != 3 {
			continue
		}
		if !c.Mine() {
			continue
		}
		p := digitsN(v, 7)
		for d := byte('0'); d <= '9'; d++ {
			Exec(c, &core.Case{Fam: "ean", S: append(append([]byte(nil), p...), d)})
		}
	}
	// 12/13-digit family: every (first digit, position, digit) cell, pairs and (thorough) triples of positions
	emit := func(base []byte) {
		Run(c, &core.Case{Fam: "ean", S: append([]byte(nil), base...)})
		for d := byte('0'); d <= '9'; d++ {
			Run(c, &core.Case{Fam: "ean", S: append(append([]byte(nil), base...), d)})
		}
	}
	for first := 0; first < 10; first++ {
		base := []byte("000000000000")
		base[0] = byte('0' + first)
		emit(base)
		for p1 := 1; p1 < 12; p1++ {
			for d1 := byte('1'); d1 <= '9'; d1++ {
				b1 := append([]byte(nil), base...)
				b1[p1] = d1
				emit(b1)
				if !strings.ContainsRune("1379", rune(d1)) {
					continue
				}
				for p2 := p1 + 1; p2 < 12; p2++ {
					for _, d2 := range []byte("1379") {
						b2 := append([]byte(nil), b1...)
						b2[p2] = d2
						emit(b2)
						if !family3 {
							continue
						}
						for p3 := p2 + 1; p3 < 12; p3++ {
							for _, d3 := range []byte("1379") {
								b3 := append([]byte(nil), b2...)
								b3[p3] = d3
								emit(b3)
							}
						}
					}
				}
			}
		}
	}
	// every value the weighted digit sum can take (EAN-13: 0..216, EAN-8: 0..135), reached with heavy and
	// with light digits: the check digit is a function of that sum only
	for _, n := range []int{12, 7} {
		weight := func(i int) int { // weight of position i (0-based) of the data digits
			if (n-i)%2 == 1 {
				return 3
			}
			return 1
		}
		maxSum := 0
		for i := 0; i < n; i++ {
			maxSum += 9 * weight(i)
		}
		for target := 0; target <= maxSum; target++ {
			for variant := 0; variant < 2; variant++ {
				b := bytes.Repeat([]byte("0"), n)
				rest := target
				order := make([]int, n)
				for i := range order {
					order[i] = i
					if variant == 1 {
						order[i] = n - 1 - i
					}
				}
				// greedy: fill positions (in the variant's order) with the largest digit that still fits
				for _, i := range order {
					d := rest / weight(i)
					if d > 9 {
						d = 9
					}
					b[i] = byte('0' + d)
					rest -= d * weight(i)
				}
				if rest != 0 {
					continue // not reachable in this order (a remainder below the weight)
				}
				emit(b)
			}
		}
	}
	// wrong lengths and one foreign letter at every position
	for n := 0; n <= 15; n++ {
		s := Filler("0123456789", n)
		Run(c, &core.Case{Fam: "ean", S: []byte(s)})
		for pos := 0; pos < n; pos++ {
			for _, l := range []string{"a", "/", ":", "B", "é", "\xff", " "} {
				Run(c, &core.Case{Fam: "ean", S: []byte(s[:pos] + l + s[pos+1:])})
				Run(c, &core.Case{Fam: "ean", S: []byte(s[:pos] + l + s[pos:])})
			}
		}
	}
}

func c06Body(c *core.Ctx) {
	defer seqPairs(c, "ean")
	enumEAN(c, c.Thorough(), c.Thorough())
	if c.Thorough() {
		c.R.Bound("eight_digit", "all 10^8 eight-digit strings")
	} else {
		c.R.Bound("eight_digit", "all 10^7 eight-digit strings whose seven-digit prefix is = 3 mod 10")
	}
	c.R.Bound("seven_digit", "all 10^7")
	c.R.Bound("thirteen_digit", "12-digit strings with <=2 (thorough <=3) non-zero positions for every first digit, alone and followed by each of the 10 candidate check digits")
	c.R.State("EAN 8")
	c.R.State("EAN 13")
	c.R.Sample(map[string]any{"code": "1234567", "expect": "Content 12345670, 67 modules, guards 101/01010/101, L-L-L-L R-R-R-R"})
	c.R.Sample(map[string]any{"code": "590123412345", "expect": "Content 5901234123457, first digit 5 -> parity LGGLLG"})
}

// ---- C07 Code 39 / Code 93 ----------------------------------------------------------

func c39BasicAlpha() []string {
	a := letters("0123456789ABCDEFGHIJKLMNOPQRSTUVWXYZ-. $/+%")
	return append(a, "*", fnc1, fnc2, fnc3, fnc4, "a", "é", "\xff")
}

func c39FullAlpha() []string {
	return append(asciiRange(0, 127), "é", "\x80")
}

func enumC39C93(c *core.Ctx, fams []string, wordLen int) {
	for _, fam := range fams {
		for ck := 0; ck <= 1; ck++ {
			for full := 0; full <= 1; full++ {
				P := []int{ck, full}
				alpha := c39BasicAlpha()
				wl := wordLen
				if full == 1 {
					alpha = c39FullAlpha()
				} else if wl == 2 {
					wl = 3 // the basic alphabet is small enough for all words of length 3 in every tier
				}
				Words(alpha, 0, wl, func(w string, _ int) bool {
					Run(c, &core.Case{Fam: fam, S: []byte(w), P: P})
					return true
				})
				// weight period: long strings with one or two foreign positions
				chars := "0123456789ABCDEFGHIJKLMNOPQRSTUVWXYZ-. $/+%"
				if full == 1 {
					chars = "a~\x00:@`{Zz9 $%+/"
				}
				for _, L := range []int{14, 15, 16, 19, 20, 21, 22, 40, 41, 42} {
					for _, base := range []byte("A1") {
						for pos := 0; pos < L; pos++ {
							for i := 0; i < len(chars); i++ {
								b := []byte(strings.Repeat(string(base), L))
								b[pos] = chars[i]
								Run(c, &core.Case{Fam: fam, S: b, P: P})
							}
						}
					}
					for p1 := 0; p1 < L; p1++ {
						for p2 := p1 + 1; p2 < L; p2++ {
							for _, pr := range []string{"1%", "Z2"} {
								b := []byte(strings.Repeat("0", L))
								b[p1], b[p2] = pr[0], pr[1]
								Run(c, &core.Case{Fam: fam, S: b, P: P})
							}
						}
					}
				}
			}
		}
	}
}

// longSymbols: every length whose symbol ends near a multiple of 4096 modules (where a bit buffer
// that grows in blocks reallocates) for the linear families without a length limit.
func longSymbols(c *core.Ctx, fams ...string) {
	for _, fam := range fams {
		switch fam {
		case "c39", "c93":
			per := map[string]int{"c39": 13, "c93": 9}[fam]
			for _, k := range []int{1, 2} {
				mid := 4096 * k / per
				for n := mid - 12; n <= mid+6; n++ {
					for ck := 0; ck <= 1; ck++ {
						Run(c, &core.Case{Fam: fam, S: []byte(Filler("0123456789ABCDEFGHIJKLMNOPQRSTUVWXYZ-. $/+%", n)), P: []int{ck, 0}})
						Run(c, &core.Case{Fam: fam, S: []byte(Filler("A1-", n)), P: []int{ck, 0}})
					}
					Run(c, &core.Case{Fam: fam, S: []byte(Filler("aB~9", n/2)), P: []int{1, 1}})
					Run(c, &core.Case{Fam: fam, S: []byte(Filler("aB~9", n*2/3)), P: []int{0, 1}})
				}
			}
		case "codabar":
			for _, k := range []int{1, 2} {
				for n := 4096*k/13 - 12; n <= 4096*k/10+6; n++ {
					if n > 4096*k/13+6 && n < 4096*k/11-12 && n%5 != 0 {
						continue
					}
					Run(c, &core.Case{Fam: fam, S: []byte("A" + Filler("0123456789-$:/.+", n) + "B")})
					Run(c, &core.Case{Fam: fam, S: []byte("C" + Filler("0:1/", n) + "D")})
				}
			}
		case "tof":
			for _, k := range []int{1, 2} {
				for n := 4096*k/14 - 6; n <= 4096*k/14+6; n++ {
					Run(c, &core.Case{Fam: fam, S: []byte(Filler("0123456789", n)), P: []int{0}})
				}
				for n := 4096*k/9 - 8; n <= 4096*k/9+8; n++ {
					Run(c, &core.Case{Fam: fam, S: []byte(Filler("0123456789", n)), P: []int{1}})
					Run(c, &core.Case{Fam: fam, S: []byte(Filler("9", n)), P: []int{1}})
				}
			}
		}
	}
}

func c07Body(c *core.Ctx) {
	defer seqPairs(c, "c39", "c93")
	wl := pick(c, 2, 3)
	enumC39C93(c, []string{"c39", "c93"}, wl)
	longSymbols(c, "c39", "c93")
	c.R.Bound("long_symbols", "every length whose symbol ends within a character or two of 4096 and 8192 modules, two fillers x check variants and full-ASCII fillers")
	c.R.Bound("words", fmt.Sprintf("all words <= %d (basic alphabet: <= 3) over the full alphabet (basic: 43 characters + '*' + FNC1-4 + 'a','é',0xFF; full ASCII: 0..127 + 'é',0x80) x includeChecksum x fullASCII x {Code 39, Code 93}", wl))
	c.R.Bound("weight_period", "lengths 14,15,16,19,20,21,22,40,41,42 with one foreign character at every position (all characters) and two at every position pair")
	for _, s := range []string{"Code 39", "Code 93"} {
		for _, o := range []string{"plain", "check", "fullascii", "fullascii+check"} {
			c.R.State(s + " " + o)
		}
	}
	c.R.Sample(map[string]any{"symbology": "Code 93", "content": "TEST93", "includeChecksum": true, "expect": "*TEST93+6* plus termination bar"})
	c.R.Sample(map[string]any{"symbology": "Code 39", "content": "a$", "fullASCII": true, "expect": "characters +A/D between the asterisks"})
}

// ---- C08 Codabar, 2 of 5, AddCheckSum -------------------------------------------------

func enumC08(c *core.Ctx, cbLen, tofLen int) {
	cb := letters("0123456789-$:/.+ABCDE")
	Words(cb, 0, cbLen, func(w string, _ int) bool {
		Run(c, &core.Case{Fam: "codabar", S: []byte(w)})
		return true
	})
	for n := 7; n <= 40; n += 3 {
		Run(c, &core.Case{Fam: "codabar", S: []byte("A" + Filler("0123456789-$:/.+", n) + "D")})
		Run(c, &core.Case{Fam: "codabar", S: []byte("C" + Filler("0123456789-$:/.+", n))})
	}
	for _, extra := range []string{"A1B\n", "\nA1B", "A1B!", "!", "A!B", "é", "A\xffB", "AéB", "a1b"} {
		Run(c, &core.Case{Fam: "codabar", S: []byte(extra)})
	}
	dig := letters("0123456789a")
	Words(dig, 0, tofLen, func(w string, _ int) bool {
		Run(c, &core.Case{Fam: "tof", S: []byte(w), P: []int{0}})
		Run(c, &core.Case{Fam: "tof", S: []byte(w), P: []int{1}})
		Run(c, &core.Case{Fam: "tofcs", S: []byte(w)})
		return true
	})
	// rune-width classes: the parity rule must count characters, not bytes
	Words([]string{"1", "8", "é", "€", "😀", "\xff"}, 1, 4, func(w string, _ int) bool {
		Run(c, &core.Case{Fam: "tof", S: []byte(w), P: []int{0}})
		Run(c, &core.Case{Fam: "tof", S: []byte(w), P: []int{1}})
		Run(c, &core.Case{Fam: "tofcs", S: []byte(w)})
		return true
	})
	for n := 8; n <= 64; n++ {
		s := Filler("0123456789", n)
		Run(c, &core.Case{Fam: "tof", S: []byte(s), P: []int{0}})
		Run(c, &core.Case{Fam: "tof", S: []byte(s), P: []int{1}})
		Run(c, &core.Case{Fam: "tofcs", S: []byte(s)})
	}
}

func c08Body(c *core.Ctx) {
	defer seqPairs(c, "codabar", "tof")
	cl, tl := pick(c, 5, 6), pick(c, 6, 7)
	enumC08(c, cl, tl)
	longSymbols(c, "codabar", "tof")
	c.R.Bound("long_symbols", "Codabar and 2 of 5 lengths whose symbol ends near 4096 and 8192 modules")
	c.R.Bound("codabar", fmt.Sprintf("all words <= %d over its 20 characters + 'E'", cl))
	c.R.Bound("twooffive", fmt.Sprintf("all words <= %d over 10 digits + 'a', both variants and AddCheckSum; all words <= 4 over {1,8,é,€,😀,0xFF}; fillers of length 8..64", tl))
	for _, s := range []string{"Codabar", "2 of 5", "2 of 5 (interleaved)", "AddCheckSum"} {
		c.R.State(s)
	}
	c.R.Sample(map[string]any{"symbology": "Codabar", "content": "A40156B"})
	c.R.Sample(map[string]any{"symbology": "2 of 5 (interleaved)", "content": "1234", "oracle": "bar/space pairs, wide=3, start 1010, stop 11101"})
	c.R.Sample(map[string]any{"helper": "AddCheckSum", "content": "1234", "expect": "12348? -> digit d with 3-1 weighted sum (d weight 1) = 0 mod 10"})
}

func init() {
	as1d := []string{
		"small-scope: exhaustive up to the stated word lengths; longer contents only through the stated fillers and macro words",
		"reference tables in harness/oracle/lin1d are own transcriptions of the standards, validated structurally at start-up",
	}
	register(&Check{ID: "C05", Engine: "E", Body: c05Body, Assumptions: as1d,
		Rule: "bounded exhaustive enumeration of Code 128 contents (class words, full-alphabet words, macro words, length grid) x both checksum variants; every accepted content is rendered by the real encoder and decoded by an independent strict reference decoder; a state is a distinct sequence of code sets taken (e.g. BCB)"})
	register(&Check{ID: "C06", Engine: "E", Body: c06Body, Assumptions: as1d,
		Rule: "exhaustive enumeration of EAN inputs: all 7-digit strings, 8-digit strings (quick: one residue class of prefixes x all last digits; thorough: all 10^8), a 12/13-digit family covering every (first digit, position, digit) cell, wrong lengths and foreign letters; oracle: GS1 check digit, guards, L/G/R sets, first-digit parity, Content, kind"})
	register(&Check{ID: "C07", Engine: "E", Body: c07Body, Assumptions: as1d,
		Rule: "bounded exhaustive enumeration of Code 39 / Code 93 texts over the full alphabets x includeChecksum x fullASCII plus weight-period strings; independent reference decoders incl. check characters (mod 43; C/K mod 47) and full-ASCII pair resolution"})
	register(&Check{ID: "C08", Engine: "E", Body: c08Body, Assumptions: as1d,
		Rule: "bounded exhaustive enumeration of Codabar strings and of digit strings for both 2-of-5 variants and AddCheckSum, plus rune-width classes; independent reference decoders of the narrow/wide element patterns"})
}
