package checks

import (
	"bytes"
	"crypto/sha256"
	"encoding/binary"
	"fmt"
	"go/ast"
	"go/parser"
	"go/token"
	"os"
	"os/exec"
	"path/filepath"
	"sort"
	"strconv"
	"strings"
	"sync"

	"github.com/boombuler/barcode"
	"github.com/boombuler/barcode/aztec"
	"github.com/boombuler/barcode/codabar"
	"github.com/boombuler/barcode/code128"
	"github.com/boombuler/barcode/code39"
	"github.com/boombuler/barcode/code93"
	"github.com/boombuler/barcode/datamatrix"
	"github.com/boombuler/barcode/ean"
	"github.com/boombuler/barcode/pdf417"
	"github.com/boombuler/barcode/qr"
	"github.com/boombuler/barcode/twooffive"

	"verif/core"
	"verif/oracle/dmdec"
	"verif/oracle/qrdec"
)

// observe digests everything a caller can see of a barcode.
func observe(bc barcode.Barcode, err error) string {
	if err != nil || bc == nil {
		return "error"
	}
	h := sha256.New()
	b := bc.Bounds()
	fmt.Fprintf(h, "%v|%q|%+v|", b, bc.Content(), bc.Metadata())
	if v, ok := bc.(barcode.BarcodeIntCS); ok {
		fmt.Fprintf(h, "cs=%d|", v.CheckSum())
	}
	if v, ok := bc.(barcode.BarcodeColor); ok {
		fmt.Fprintf(h, "scheme=%v|", v.ColorScheme())
	}
	var buf [16]byte
	for y := b.Min.Y; y < b.Max.Y; y++ {
		for x := b.Min.X; x < b.Max.X; x++ {
			r, g, bl, a := bc.At(x, y).RGBA()
			binary.LittleEndian.PutUint32(buf[0:], r)
			binary.LittleEndian.PutUint32(buf[4:], g)
			binary.LittleEndian.PutUint32(buf[8:], bl)
			binary.LittleEndian.PutUint32(buf[12:], a)
			h.Write(buf[:])
		}
	}
	return fmt.Sprintf("%x", h.Sum(nil)[:12])
}

type pureOp struct {
	name string
	run  func() (barcode.Barcode, error)
}

var (
	pureOpsOnce sync.Once
	pureOpList  []pureOp
	pureOpIdx   = map[string]int{}
)

func pureOps() []pureOp {
	pureOpsOnce.Do(func() {
		add := func(name string, f func() (barcode.Barcode, error)) {
			pureOpIdx[name] = len(pureOpList)
			pureOpList = append(pureOpList, pureOp{name, f})
		}
		// QR: one encode per distinct check-codewords-per-block value (smallest version/level having it)
		seen := map[int]bool{}
		for v := 1; v <= 40; v++ {
			for l := 0; l < 4; l++ {
				_, _, _, _, ec := qrdec.BlockLayout(v, l)
				if seen[ec] {
					continue
				}
				seen[ec] = true
				content := string(qrFill(1, qrCap(1, l, v)))
				lv := qrLevels[l]
				add(fmt.Sprintf("qr:ec%d(v%d-%s)", ec, v, qrdec.LevelName(l)), func() (barcode.Barcode, error) { return qr.Encode(content, lv, qr.Numeric) })
			}
		}
		// DataMatrix: one encode per distinct check-codewords-per-block value
		seenD := map[int]bool{}
		for _, sz := range dmdec.Sizes {
			e := sz.ECCPerBlock()
			if seenD[e] {
				continue
			}
			seenD[e] = true
			content := string(dmByCodewords(sz.DataCodewords)[0])
			add(fmt.Sprintf("dm:ecc%d(%dx%d)", e, sz.Rows, sz.Cols), func() (barcode.Barcode, error) { return datamatrix.Encode(content) })
		}
		add("aztec:compact", func() (barcode.Barcode, error) { return aztec.Encode([]byte("Hello, World."), 33, 0) })
		add("aztec:full", func() (barcode.Barcode, error) { return aztec.Encode(azFills[3](150), 33, 0) })
		add("aztec:10bit", func() (barcode.Barcode, error) { return aztec.Encode(azFills[0](300), 23, 0) })
		add("pdf417:text", func() (barcode.Barcode, error) { return pdf417.Encode("Hello, World; 1234567890123456", 2) })
		add("pdf417:bytes", func() (barcode.Barcode, error) { return pdf417.Encode("\x80\x81\x82\x83\x84\x85\x86abc", 0) })
		add("pdf417:big", func() (barcode.Barcode, error) { return pdf417.Encode(Filler("aB1;& ,z\nQ:x", 400), 5) })
		add("code128", func() (barcode.Barcode, error) { return up(code128.Encode("Ab12345\x01" + fnc1 + "9")) })
		add("code39:ck", func() (barcode.Barcode, error) { return up(code39.Encode("CODE-39 $%", true, false)) })
		add("code39:full", func() (barcode.Barcode, error) { return up(code39.Encode("a~b", true, true)) })
		add("code93:ck", func() (barcode.Barcode, error) { return code93.Encode("TEST93+/", true, false) })
		add("code93:full", func() (barcode.Barcode, error) { return code93.Encode("a~\x00", true, true) })
		add("ean8", func() (barcode.Barcode, error) { return up(ean.Encode("1234567")) })
		add("ean13", func() (barcode.Barcode, error) { return up(ean.Encode("590123412345")) })
		add("codabar", func() (barcode.Barcode, error) { return codabar.Encode("A12-$:/.+3B") })
		add("2of5", func() (barcode.Barcode, error) { return twooffive.Encode("12345", false) })
		add("2of5i", func() (barcode.Barcode, error) { return twooffive.Encode("123456", true) })
		add("scale:qr", func() (barcode.Barcode, error) {
			b, e := qr.Encode("SCALE ME", qr.M, qr.Auto)
			if e != nil {
				return nil, e
			}
			return barcode.Scale(b, 50, 53)
		})
		add("scale:dm", func() (barcode.Barcode, error) {
			b, e := datamatrix.Encode("scale me too")
			if e != nil {
				return nil, e
			}
			return barcode.Scale(b, 40, 33)
		})
		// refused calls: an error path must not leave anything behind either
		add("err:qr-numeric", func() (barcode.Barcode, error) { return qr.Encode("12a45", qr.M, qr.Numeric) })
		add("err:qr-alnum", func() (barcode.Barcode, error) { return qr.Encode("AB:cd", qr.L, qr.AlphaNumeric) })
		add("err:qr-toolong", func() (barcode.Barcode, error) { return qr.Encode(Filler("0123456789", 7200), qr.L, qr.Auto) })
		add("err:dm-toolong", func() (barcode.Barcode, error) { return datamatrix.Encode(Filler("ABCDEFG", 1600)) })
		add("err:aztec-layers", func() (barcode.Barcode, error) {
			return aztec.Encode([]byte("Too much for one compact layer 0123456789"), 33, -1)
		})
		add("err:pdf417-level", func() (barcode.Barcode, error) { return pdf417.Encode("Hello", 9) })
		add("err:pdf417-toolong", func() (barcode.Barcode, error) { return pdf417.Encode(Filler("aB1;& ,z", 3000), 8) })
		add("err:code128", func() (barcode.Barcode, error) { return up(code128.Encode("Ab\u00e4")) })
		add("err:code39-full", func() (barcode.Barcode, error) { return up(code39.Encode("Caf\u00e9", true, true)) })
		add("err:code39-basic", func() (barcode.Barcode, error) { return up(code39.Encode("AB*c", true, false)) })
		add("err:code93-full", func() (barcode.Barcode, error) { return code93.Encode("Caf\u00e9 93", true, true) })
		add("err:ean", func() (barcode.Barcode, error) { return up(ean.Encode("12345678")) })
		add("err:codabar", func() (barcode.Barcode, error) { return codabar.Encode("A12E") })
		add("err:2of5i", func() (barcode.Barcode, error) { return twooffive.Encode("12345", true) })
		for _, op := range pureOpList {
			op := op
			oneshots[op.name] = func() string { return observe(op.run()) }
		}
		// whole qr.Encode calls explored by C16/S3d (not part of the C15 alphabet)
		for _, cm := range s3dCases {
			mode, _ := strconv.Atoi(cm[0])
			content := cm[1]
			name := s3dName(0, mode, content)
			extraFresh = append(extraFresh, name)
			oneshots[name] = func() string { return observe(qr.Encode(content, qrLevels[0], qrModes[mode])) }
		}
	})
	return pureOpList
}

func init() {
	// make the oneshot names known before flag parsing in main
	oneshotInit = func() { pureOps() }
}

var extraFresh []string

var (
	freshOnce sync.Once
	freshObs  map[string]string
	freshErr  error
)

// freshObservations runs every operation of the alphabet in its own new OS process.
func freshObservations() (map[string]string, error) {
	freshOnce.Do(func() {
		freshObs = map[string]string{}
		self, err := os.Executable()
		if err != nil {
			freshErr = err
			return
		}
		var names []string
		for _, op := range pureOps() {
			names = append(names, op.name)
		}
		for _, name := range append(names, extraFresh...) {
			out, err := exec.Command(self, "C15", "--oneshot", name).Output()
			if err != nil {
				freshErr = fmt.Errorf("fresh process for %s: %v", name, err)
				return
			}
			freshObs[name] = strings.TrimSpace(string(out))
		}
	})
	return freshObs, freshErr
}

func resetCaches() {
	qr.VerifReset()
	datamatrix.VerifReset()
}

func cachesKey() string {
	return cacheKey(qr.VerifCacheState()) + "#" + cacheKey(datamatrix.VerifCacheState())
}

// pure: Ops = operation names. Starting from cold caches the sequence is executed; the
// observation of EVERY operation must equal its fresh-process observation, each operation
// is executed twice in place (determinism), and the caches must equal the reference generators.
func evalPure(c *core.Ctx, cs *core.Case) {
	fresh, err := freshObservations()
	if err != nil {
		c.Fail("C15", cs, "cannot obtain fresh-process observations: %v", err)
		return
	}
	ops := pureOps()
	p, w := Safely(func() {
		resetCaches()
		for i, name := range cs.Ops {
			op := ops[pureOpIdx[name]]
			o1 := observe(op.run())
			c.R.Transitions++
			if o1 != fresh[name] {
				c.Fail("C15", cs, "operation %d (%s) after %v observes %s, a freshly started process observes %s", i, name, cs.Ops[:i], o1, fresh[name])
				return
			}
			if i == len(cs.Ops)-1 {
				if o2 := observe(op.run()); o2 != o1 {
					c.Fail("C15", cs, "operation %s repeated in place observes %s then %s", name, o1, o2)
					return
				}
			}
		}
		if msg := rsCacheCheck(refField{0x11D, 256}, fieldSpec{0x11D, 256, 0}, qr.VerifCacheState()); msg != "" {
			c.Fail("C15", cs, "qr generator cache after %v: %s", cs.Ops, msg)
		}
		if msg := rsCacheCheck(refField{0x12D, 256}, fieldSpec{0x12D, 256, 1}, datamatrix.VerifCacheState()); msg != "" {
			c.Fail("C15", cs, "datamatrix generator cache after %v: %s", cs.Ops, msg)
		}
	})
	if p {
		c.Fail("C15", cs, "panic: %s", w)
	}
}

// alias: S = payload, P = [pct, layers]: the encoder must not modify its argument and the
// returned barcode must not change when the argument is overwritten afterwards.
func evalAlias(c *core.Ctx, cs *core.Case) {
	pct, layers := prm(cs, 0), prm(cs, 1)
	for variant := 0; variant < 4; variant++ {
		// the argument is a window of a larger buffer (a field cut from a record): variants 0,1 leave spare
		// capacity behind it, variants 2,3 do not; nothing of the caller's buffer may change
		n := len(cs.S)
		buf := bytes.Repeat([]byte{0xA5}, n+16)
		copy(buf[8:], cs.S)
		whole := string(buf)
		arg := buf[8 : 8+n]
		if variant >= 2 {
			arg = buf[8 : 8+n : 8+n]
		}
		var bc barcode.Barcode
		var err error
		if p, _ := Safely(func() {
			if variant%2 == 0 {
				bc, err = aztec.Encode(arg, pct, layers)
			} else {
				bc, err = aztec.EncodeWithColor(arg, pct, layers, customScheme)
			}
		}); p {
			return
		}
		if string(arg) != string(cs.S) {
			c.Fail("C15", cs, "encoder modified the caller's slice: %q -> %q", cs.S, arg)
			return
		}
		if string(buf) != whole {
			c.Fail("C15", cs, "encoder wrote into the caller's buffer outside the slice it was given (the slice is bytes 8..%d of %q, afterwards the buffer is %q)", 8+n, whole, buf)
			return
		}
		if err != nil || bc == nil {
			c.R.Rejected++
			return
		}
		c.R.Accepted++
		before := observe(bc, nil)
		content := bc.Content()
		for _, pat := range []byte{0xFF, 0x00} {
			for i := range arg {
				old := arg[i]
				arg[i] = old ^ pat
				if pat == 0 {
					arg[i] = '#'
				}
				c.R.Transitions++
				if after := observe(bc, nil); after != before || bc.Content() != content {
					c.Fail("C15", cs, "overwriting byte %d of the input after Encode changed the returned barcode: Content() %q -> %q", i, content, bc.Content())
					return
				}
				arg[i] = old
			}
		}
	}
}

// scanRepo lists package-level variables and exported entry points with reference-typed parameters.
func scanRepo() (vars []string, refEntries []string) {
	fset := token.NewFileSet()
	filepath.Walk(repoDir(), func(p string, info os.FileInfo, err error) error {
		if err != nil || info.IsDir() || !strings.HasSuffix(p, ".go") || strings.HasSuffix(p, "_test.go") || strings.Contains(p, "/.git/") {
			return nil
		}
		f, err := parser.ParseFile(fset, p, nil, 0)
		if err != nil {
			return nil
		}
		pkg := f.Name.Name
		for _, d := range f.Decls {
			switch d := d.(type) {
			case *ast.GenDecl:
				if d.Tok != token.VAR {
					continue
				}
				for _, s := range d.Specs {
					for _, n := range s.(*ast.ValueSpec).Names {
						vars = append(vars, pkg+"."+n.Name)
					}
				}
			case *ast.FuncDecl:
				if d.Recv != nil || !d.Name.IsExported() || pkg == "utils" {
					continue
				}
				if !strings.HasPrefix(d.Name.Name, "Encode") && !strings.HasPrefix(d.Name.Name, "Scale") && d.Name.Name != "AddCheckSum" {
					continue
				}
				for _, prm := range d.Type.Params.List {
					switch prm.Type.(type) {
					case *ast.ArrayType, *ast.MapType, *ast.StarExpr:
						refEntries = append(refEntries, pkg+"."+d.Name.Name)
					}
				}
			}
		}
		return nil
	})
	sort.Strings(vars)
	sort.Strings(refEntries)
	return
}

func c15Body(c *core.Ctx) {
	ops := pureOps()
	if _, err := freshObservations(); err != nil {
		c.Fail("C15", &core.Case{Fam: "pure"}, "cannot obtain fresh-process observations: %v", err)
		return
	}
	names := make([]string, len(ops))
	for i, o := range ops {
		names[i] = o.name
	}
	// hidden-state inventory (informational) and reference-typed entry points
	vars, refs := scanRepo()
	if c.Shard == 0 {
		c.R.Note("package-level variables in /repo: %s", strings.Join(vars, " "))
		c.R.Note("entry points with slice/map/pointer parameters: %s", strings.Join(refs, " "))
	}
	for _, r := range refs {
		if r != "aztec.Encode" && r != "aztec.EncodeWithColor" {
			c.R.NotDone("entry point %s takes a reference-typed parameter and has no aliasing harness", r)
		}
	}
	// 1. BFS over operation sequences from cold caches, de-duplicated on the cache contents
	// A node keeps its shortest path and a snapshot of both caches; a successor key is obtained
	// by restoring the snapshot (hook) and executing one real operation. The oracle (sharded)
	// always replays the whole path from cold caches.
	type node struct {
		path   []string
		qr, dm [][]int
	}
	resetCaches()
	root := node{nil, qr.VerifCacheState(), datamatrix.VerifCacheState()}
	seen := map[string]bool{cachesKey(): true}
	frontier := []node{root}
	depth := 0
	for len(frontier) > 0 {
		var next []node
		for _, nd := range frontier {
			for _, name := range names {
				path := append(append([]string(nil), nd.path...), name)
				Run(c, &core.Case{Fam: "pure", Ops: path})
				if !strings.HasPrefix(name, "qr:") && !strings.HasPrefix(name, "dm:") {
					continue // only these can change the key; guarded by the raw sequences below
				}
				if !qr.VerifRestore(nd.qr) || !datamatrix.VerifRestore(nd.dm) {
					// the caches cannot be put back through the hook (their layout changed): replay the path
					resetCaches()
					for _, n := range nd.path {
						Safely(func() { ops[pureOpIdx[n]].run() })
					}
				}
				Safely(func() { ops[pureOpIdx[name]].run() })
				k := cachesKey()
				if !seen[k] {
					seen[k] = true
					next = append(next, node{path, qr.VerifCacheState(), datamatrix.VerifCacheState()})
				}
			}
		}
		frontier = next
		depth++
	}
	for k := range seen {
		c.R.State(fmt.Sprintf("caches %x", hash64(k)))
	}
	c.R.Bound("bfs", fmt.Sprintf("%d operations, fixpoint at depth %d with %d distinct cache states", len(names), depth, len(seen)))
	// 2. raw sequences without de-duplication
	rawLen := pick(c, 2, 3)
	var rec func(path []string)
	rec = func(path []string) {
		if len(path) > 0 {
			Run(c, &core.Case{Fam: "pure", Ops: append([]string(nil), path...)})
		}
		if len(path) == rawLen {
			return
		}
		for _, n := range names {
			rec(append(path, n))
		}
	}
	rec(nil)
	c.R.Bound("raw_sequences", fmt.Sprintf("all operation sequences of length <= %d", rawLen))
	// 3. map iteration: the Code 39/93 look-ups by value range over a map; they are order-independent
	// iff the values are injective. Plus 64 repetitions of each check-character operation.
	for name, tbl := range map[string]map[rune]int{"code39": code39.VerifTableValues(), "code93": code93.VerifTableValues()} {
		inv := map[int]rune{}
		for r, v := range tbl {
			if v < 0 {
				continue
			}
			if o, dup := inv[v]; dup && c.Shard == 0 {
				c.Fail("C15", &core.Case{Fam: "pure", Ops: []string{name + ":ck"}}, "%s encode table: value %d belongs to both %q and %q, so the check character found by ranging over the map depends on iteration order", name, v, o, r)
			}
			inv[v] = r
		}
	}
	for _, n := range []string{"code39:ck", "code39:full", "code93:ck", "code93:full"} {
		if !c.Mine() {
			continue
		}
		cs := &core.Case{Fam: "pure", Ops: []string{n}}
		first := observe(ops[pureOpIdx[n]].run())
		for i := 0; i < 64; i++ {
			c.R.Transitions++
			if o := observe(ops[pureOpIdx[n]].run()); o != first {
				c.Fail("C15", cs, "repetition %d of %s observes %s, first run %s", i, n, o, first)
				break
			}
		}
	}
	// 3b. depth-2 histories over per-family input alphabets, snapshot property, determinism sweep
	pairSweep(c)
	// 4. aliasing of the only reference-typed inputs
	wl := pick(c, 3, 4)
	for _, lay := range []int{0, -2, 3} {
		for _, pct := range []int{23, 80} {
			Words(azClass, 0, wl, func(w string, _ int) bool {
				Run(c, &core.Case{Fam: "alias", S: []byte(w), P: []int{pct, lay}})
				return true
			})
		}
	}
	Run(c, &core.Case{Fam: "alias", S: azFills[3](300), P: []int{33, 0}})
	Run(c, &core.Case{Fam: "alias", S: azFills[2](100), P: []int{33, 0}})
	c.R.Bound("aliasing", fmt.Sprintf("all words <= %d over %q x layers {auto,-2,3} x {23,80}%%, both Encode and EncodeWithColor, the argument passed as a window of a larger buffer with and without spare capacity (the whole buffer must stay unchanged), every byte position overwritten with two patterns", wl, azClass))
	c.R.Sample(map[string]any{"ops": []string{names[len(names)/3], names[0], names[len(names)/3]}, "oracle": "each observation == observation of the same call in a freshly started process; caches == reference generator polynomials"})
}

func init() {
	Evaluators["pure"] = evalPure
	Evaluators["alias"] = evalAlias
	register(&Check{ID: "C15", Engine: "B", Body: c15Body,
		Rule: "explicit-state BFS over sequences of encode operations from cold package state; state = contents of the two package-level generator-polynomial caches (hook), de-duplicated exactly, to a fixpoint, plus all raw sequences up to a length; in every state every operation's observation (pixel digest, bounds, Content, Metadata, CheckSum, ColorScheme) must equal the observation of the same call in a freshly started OS process (obtained for every operation of the alphabet), repeat identically in place, and leave caches equal to the reference generators. Map-iteration independence is decided structurally (injective value fields) plus 64 repetitions. Aliasing: every byte of every []byte argument is overwritten after the call.",
		Assumptions: []string{
			"operation alphabet: one QR/DataMatrix encode per distinct check-codewords-per-block value (these are the only operations that can change hidden state), three Aztec, three PDF417, one per linear family, two Scale, and 14 refused calls (one or more per entry point, so that error paths are part of every history)",
			"Go offers no seam to control map iteration order; order-independence is argued from injectivity of the table values",
		}})
}
