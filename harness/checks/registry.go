// Package checks holds the explorers of the individual properties.
package checks

import (
	"fmt"
	"runtime/debug"

	"verif/core"
)

// Check describes the exploration that decides one property.
type Check struct {
	ID          string
	Engine      string // E, B or S
	Rule        string // how cases are enumerated and what makes a state distinct
	Assumptions []string
	Body        func(c *core.Ctx)
	// Serial checks run in a single process (they shard internally or cannot be sharded).
	Serial bool
}

var Registry = map[string]*Check{}

func register(c *Check) { Registry[c.ID] = c }

// Evaluator executes one case on the real implementation and records findings.
type Evaluator func(c *core.Ctx, cs *core.Case)

var Evaluators = map[string]Evaluator{}

// Run executes cs if it belongs to this shard.
func Run(c *core.Ctx, cs *core.Case) {
	if !c.Mine() {
		return
	}
	Exec(c, cs)
}

// Exec executes cs unconditionally (also used by replay).
func Exec(c *core.Ctx, cs *core.Case) {
	ev, ok := Evaluators[cs.Fam]
	if !ok {
		panic("no evaluator for family " + cs.Fam)
	}
	c.Begin(cs)
	c.ExecCount++
	c.R.Evaluations++
	// evaluators guard the encoder calls themselves; a panic that escapes them comes from an
	// accessor of a returned barcode (At, Bounds, Content, ...) while it is being examined
	if p, w := Safely(func() { ev(c, cs) }); p {
		c.Fail(c.ID, cs, "panic while the returned barcode was examined (pixel or accessor read): %s", w)
	}
	c.End()
	c.Remember(cs)
	c.Tick()
}

// Safely runs f and converts a panic into (true, description).
func Safely(f func()) (panicked bool, what string) {
	defer func() {
		if r := recover(); r != nil {
			if _, stop := r.(core.StopSignal); stop {
				panic(r)
			}
			panicked = true
			what = fmt.Sprintf("%v\n%s", r, trimStack(debug.Stack()))
		}
	}()
	f()
	return
}

func trimStack(b []byte) string {
	if len(b) > 1500 {
		b = b[:1500]
	}
	return string(b)
}
