package checks

import (
	"bytes"
	"fmt"
	"runtime"
	"time"

	"github.com/boombuler/barcode/utils"

	"verif/core"
)

// ---- BitList against a []bool model (engine B) ----------------------------

type blOp struct {
	name  string
	needs int // minimal length for the op to be enabled
	real  func(bl *utils.BitList)
	model func(m []bool) []bool
}

func mAddBits(m []bool, v int, k int) []bool {
	for i := k - 1; i >= 0; i-- {
		m = append(m, (v>>uint(i))&1 == 1)
	}
	return m
}

func blSet(pos func(n int) int, v bool) (func(*utils.BitList), func([]bool) []bool) {
	return func(bl *utils.BitList) { bl.SetBit(pos(bl.Len()), v) },
		func(m []bool) []bool { m[pos(len(m))] = v; return m }
}

var blOps []blOp

func init() {
	add := func(name string, needs int, r func(*utils.BitList), m func([]bool) []bool) {
		blOps = append(blOps, blOp{name, needs, r, m})
	}
	add("AddBit(0)", 0, func(b *utils.BitList) { b.AddBit(false) }, func(m []bool) []bool { return append(m, false) })
	add("AddBit(1)", 0, func(b *utils.BitList) { b.AddBit(true) }, func(m []bool) []bool { return append(m, true) })
	add("AddBit(1,0,1)", 0, func(b *utils.BitList) { b.AddBit(true, false, true) }, func(m []bool) []bool { return append(m, true, false, true) })
	for _, a := range []struct {
		v int
		k byte
	}{{0, 0}, {1, 1}, {5, 3}, {0x155, 9}, {-1, 32}, {0x12345678, 32},
		// values with bits above the k that are appended: only the low k bits count
		{0x1F, 3}, {-1, 5}, {0x2A5, 4},
		// groups wider than a word: int has 64 bits, and "the low k bits of an integer" has no 32-bit limit
		{0x15A5A5A5A5, 37}, {0x1FFFFFFFFF, 33}, {-0x123456789ABCDF1, 64}} {
		a := a
		add(fmt.Sprintf("AddBits(%#x,%d)", a.v, a.k), 0, func(b *utils.BitList) { b.AddBits(a.v, a.k) }, func(m []bool) []bool { return mAddBits(m, a.v, int(a.k)) })
	}
	add("AddByte(0xA5)", 0, func(b *utils.BitList) { b.AddByte(0xA5) }, func(m []bool) []bool { return mAddBits(m, 0xA5, 8) })
	add("AddByte(0)", 0, func(b *utils.BitList) { b.AddByte(0) }, func(m []bool) []bool { return mAddBits(m, 0, 8) })
	// observers as operations: reading must not change what later reads return
	same := func(m []bool) []bool { return m }
	add("GetBytes()", 0, func(b *utils.BitList) { b.GetBytes() }, same)
	add("IterateBytes()", 0, func(b *utils.BitList) {
		// the producer runs in its own goroutine, where a panic cannot be recovered: make sure
		// first (in this goroutine) that every word it is going to read exists
		if n := b.Len(); n > 0 {
			b.GetBit(n - 1)
		}
		for range b.IterateBytes() {
		}
	}, same)
	add("GetBit(mid)+Len()", 1, func(b *utils.BitList) { b.GetBit(b.Len() / 2) }, same)
	first := func(n int) int { return 0 }
	mid := func(n int) int { return n / 2 }
	last := func(n int) int { return n - 1 }
	for _, p := range []struct {
		n string
		f func(int) int
	}{{"0", first}, {"mid", mid}, {"last", last}} {
		for _, v := range []bool{true, false} {
			r, m := blSet(p.f, v)
			add(fmt.Sprintf("SetBit(%s,%v)", p.n, v), 1, r, m)
		}
	}
}

var blOpIndex = map[string]int{}

func blFill(i int) bool { return (i*i+i/3)%2 == 1 || i%7 == 0 }

// blInit builds the initial real object and model: kind 0 = new(BitList), 1 = NewBitList(n);
// then appends the deterministic fill pattern until the length is fillTo.
func blInit(kind, n, fillTo int) (*utils.BitList, []bool) {
	var bl *utils.BitList
	var m []bool
	if kind == 0 {
		bl = new(utils.BitList)
	} else {
		bl = utils.NewBitList(n)
		m = make([]bool, n)
	}
	for len(m) < fillTo {
		v := blFill(len(m))
		bl.AddBit(v)
		m = append(m, v)
	}
	return bl, m
}

// blKey is the exact concrete state: count, capacity, the words that hold bits, and any
// non-zero word beyond them.
func blKey(bl *utils.BitList) string {
	// every field of the struct, read through reflection: also fields added after this harness was written
	return utils.VerifDeepKey(bl)
}

func blModelBytes(m []bool) []byte {
	out := make([]byte, (len(m)+7)/8)
	for i, v := range m {
		if v {
			out[i/8] |= 0x80 >> uint(i%8)
		}
	}
	return out
}

// blObserve compares every observer of bl with the model.
func blObserve(bl *utils.BitList, m []bool) string {
	if bl.Len() != len(m) {
		return fmt.Sprintf("Len()=%d, model %d", bl.Len(), len(m))
	}
	for i, v := range m {
		if bl.GetBit(i) != v {
			return fmt.Sprintf("GetBit(%d)=%v, model %v (len %d)", i, !v, v, len(m))
		}
	}
	want := blModelBytes(m)
	if got := bl.GetBytes(); !bytes.Equal(got, want) {
		return fmt.Sprintf("GetBytes() differs from the packed model: got % x want % x", truncB(got), truncB(want))
	}
	before := runtime.NumGoroutine()
	ch := bl.IterateBytes()
	got := make([]byte, 0, len(want))
	timeout := time.NewTimer(30 * time.Second)
	defer timeout.Stop()
	for closed := false; !closed; {
		select {
		case b, ok := <-ch:
			if !ok {
				closed = true
				break
			}
			got = append(got, b)
			if len(got) > len(want)+8 {
				return fmt.Sprintf("IterateBytes() delivers more than %d bytes for %d bits", len(want), len(m))
			}
		case <-timeout.C:
			return fmt.Sprintf("IterateBytes() neither delivered nor closed within 30 s after %d of %d bytes", len(got), len(want))
		}
	}
	if !bytes.Equal(got, want) {
		return fmt.Sprintf("IterateBytes() differs from the packed model: got % x want % x", truncB(got), truncB(want))
	}
	// two byte views alive at once: the first one is started and read by one byte, a second list is
	// iterated completely, then the first is drained; each view delivers its own list
	if len(want) > 0 {
		other := new(utils.BitList)
		for i := 0; i < 5; i++ {
			other.AddByte(byte(0x3C + 17*i))
		}
		ch1 := bl.IterateBytes()
		got1 := []byte{<-ch1}
		var got2 []byte
		for b := range other.IterateBytes() {
			got2 = append(got2, b)
		}
		for b := range ch1 {
			got1 = append(got1, b)
			if len(got1) > len(want)+8 {
				break
			}
		}
		if !bytes.Equal(got2, other.GetBytes()) || len(got2) != 5 {
			return fmt.Sprintf("IterateBytes() of a second list while a first view is open differs: got % x want % x", truncB(got2), truncB(other.GetBytes()))
		}
		if !bytes.Equal(got1, want) {
			return fmt.Sprintf("IterateBytes() view that was open while another list was iterated differs from the packed model: got % x want % x", truncB(got1), truncB(want))
		}
	}
	// the producer goroutine must be gone (a leaked goroutine never exits: the grace period only delays)
	for i := 0; runtime.NumGoroutine() > before; i++ {
		if i > 20000 {
			return "goroutine started by IterateBytes() still alive 20 s after its channel was closed"
		}
		if i < 100 {
			runtime.Gosched()
		} else {
			time.Sleep(time.Millisecond)
		}
	}
	return ""
}

func truncB(b []byte) []byte {
	if len(b) > 24 {
		return b[len(b)-24:]
	}
	return b
}

// bitlist: P = [kind, n, fillTo], Ops = operation names. The sequence is replayed on a
// fresh object and on the model; all observers are compared after the last operation.
func evalBitList(c *core.Ctx, cs *core.Case) {
	var msg string
	p, w := Safely(func() {
		bl, m := blInit(cs.P[0], cs.P[1], cs.P[2])
		for _, name := range cs.Ops {
			op := blOps[blOpIndex[name]]
			op.real(bl)
			m = op.model(m)
		}
		msg = blObserve(bl, m)
	})
	if p {
		msg = "panic: " + w
	}
	if msg != "" {
		c.Fail("C18", cs, "%s", msg)
	}
}

// blBFS explores all operation sequences of length <= depth from one initial state.
// Frontier nodes keep an exact clone of the real object (hook), so a successor is one real
// operation on a clone; the oracle (sharded) replays the whole sequence on a fresh object.
func blBFS(c *core.Ctx, kind, n, fillTo, depth int) {
	type node struct {
		path []uint8
		bl   *utils.BitList
	}
	seen := map[string]struct{}{}
	names := func(p []uint8) []string {
		s := make([]string, len(p))
		for i, o := range p {
			s[i] = blOps[o].name
		}
		return s
	}
	P := []int{kind, n, fillTo}
	Run(c, &core.Case{Fam: "bitlist", P: P})
	bl0, _ := blInit(kind, n, fillTo)
	seen[blKey(bl0)] = struct{}{}
	frontier := []node{{nil, bl0}}
	var states, trans int64 = 1, 0
	for d := 1; d <= depth && len(frontier) > 0; d++ {
		var next []node
		for _, nd := range frontier {
			for oi := range blOps {
				if nd.bl.Len() < blOps[oi].needs {
					continue
				}
				path := append(append([]uint8(nil), nd.path...), uint8(oi))
				trans++
				cs := &core.Case{Fam: "bitlist", P: P, Ops: names(path)}
				if d == depth {
					Run(c, cs) // leaves are checked but not expanded, so they need not be built here
					continue
				}
				bl := utils.VerifBitListClone(nd.bl)
				if pn, _ := Safely(func() { blOps[oi].real(bl) }); pn {
					Exec(c, cs)
					continue
				}
				Run(c, cs)
				k := blKey(bl)
				if _, ok := seen[k]; ok {
					continue
				}
				seen[k] = struct{}{}
				states++
				next = append(next, node{path, bl})
			}
		}
		frontier = next
	}
	if c.Shard == 0 {
		c.R.Transitions += trans
		c.R.Count("bitlist.interior_states", states)
		c.R.State(fmt.Sprintf("init kind=%d n=%d fill=%d depth=%d: %d interior states, %d transitions", kind, n, fillTo, depth, states, trans))
	}
}

func c18Body(c *core.Ctx) {
	T := c.Thorough()
	pick := func(q, t int) int {
		if T {
			return t
		}
		return q
	}
	// 1. from the empty list
	d0 := pick(5, 6)
	blBFS(c, 0, 0, 0, d0)
	// 2. from NewBitList(n)
	for _, n := range []int{0, 1, 7, 8, 31, 32, 33, 64} {
		blBFS(c, 1, n, n, pick(3, 4))
	}
	for _, n := range []int{4095, 4096, 4097, 32768, 40000} {
		blBFS(c, 1, n, n, pick(2, 3))
	}
	// 3. boundary states: new(BitList) filled up to b-k bits, for every growth boundary b
	maxK := pick(8, 40)
	for _, b := range []int{4096, 8192, 16384, 32768, 65536, 98304, 131072} {
		for k := 0; k <= maxK; k++ {
			d := 2
			if T && k <= 8 {
				d = 3
			}
			blBFS(c, 0, 0, b-k, d)
		}
	}
	// word-boundary states of a small list
	for _, fill := range []int{24, 31, 32, 33, 56, 63, 64, 65} {
		blBFS(c, 0, 0, fill, pick(3, 4))
	}
	c.R.Bound("depth_from_empty", d0)
	c.R.Bound("boundary_k_max", maxK)
	c.R.Bound("ops", len(blOps))
	c.R.Sample(map[string]any{"init": "new(BitList)", "ops": []string{"AddBits(0x155,9)", "SetBit(mid,false)", "AddByte(0xA5)"}, "oracle": "Len, GetBit(all i), GetBytes, drained IterateBytes == []bool model; producer goroutine gone"})
	c.R.Sample(map[string]any{"init": "new(BitList) filled with a pattern to 4096-3 bits", "ops": []string{"AddBits(-0x1,32)", "SetBit(last,false)"}})
}

func init() {
	for i, o := range blOps {
		blOpIndex[o.name] = i
	}
	Evaluators["bitlist"] = evalBitList
	register(&Check{
		ID: "C18", Engine: "B",
		Rule: "explicit-state BFS over operation sequences of a real utils.BitList; a state is the exact concrete state (count, capacity, words) read through a hook and reached by replaying the shortest operation list on a fresh object; interior states are de-duplicated on that exact key; after every transition Len, GetBit(i) for all i, GetBytes and the drained IterateBytes channel are compared with a []bool model. Initial states: empty list, NewBitList(n) for 13 values of n, and lists pre-filled to within k bits of every growth boundary (128-word start, doubling, 1024-word cap) and of 32-bit word boundaries.",
		Assumptions: []string{
			"bounded: sequence depth and k (distance to a growth boundary) as reported in coverage.bounds",
			"SetBit/GetBit with an index >= Len() are outside the property",
		},
		Body: c18Body,
	})
}
