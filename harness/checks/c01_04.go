package checks

import (
	"fmt"
	"sort"
	"strings"

	"verif/core"
	"verif/oracle/dmdec"
	"verif/oracle/qrdec"
)

func byteFiller(n int) []byte {
	b := make([]byte, n)
	for i := range b {
		b[i] = byte((i*i*7 + n*13 + i*3) % 256)
	}
	return b
}

func allBytePairs(fn func(b []byte)) {
	for x := 0; x < 256; x++ {
		fn([]byte{byte(x)})
	}
	for x := 0; x < 256; x++ {
		for y := 0; y < 256; y++ {
			fn([]byte{byte(x), byte(y)})
		}
	}
}

// ---- C02 DataMatrix -----------------------------------------------------------------

var dmClass = []string{"0", "9", "A", "\x00", "\x7f", "\x80", "\xff",
	// non-ASCII decimal digits (Arabic-Indic, fullwidth): bytes, not digits, for the digit-pair rule
	"٣", "３"}

// dmByCodewords builds contents whose reference encodation has exactly n codewords, three ways.
func dmByCodewords(n int) [][]byte {
	var out [][]byte
	// (a) one codeword per character (letters and controls, no two adjacent digits)
	out = append(out, []byte(Filler("AbC \x00z~\x7fQ", n)))
	// (b) digit pairs; and the odd digit count that needs one more codeword
	out = append(out, []byte(Filler("0123456789", 2*n)))
	if n > 0 {
		out = append(out, []byte(Filler("9876543210", 2*n-1)))
	}
	// (c) upper-shift bytes (2 codewords each); for odd n one plain letter in front
	hi := make([]byte, 0, n)
	if n%2 == 1 {
		hi = append(hi, 'x')
	}
	for i := 0; i < n/2; i++ {
		hi = append(hi, byte(128+(i*i+n)%128))
	}
	out = append(out, hi)
	// (d) mixture
	mix := make([]byte, 0, 2*n)
	for cw := 0; cw < n; {
		switch {
		case (cw+n)%5 == 0 && cw+2 <= n:
			mix = append(mix, byte(200+(cw%50)))
			cw += 2
		case (cw+n)%3 == 0:
			mix = append(mix, byte('0'+cw%10), byte('0'+(cw/3)%10))
			cw++
		default:
			mix = append(mix, byte('a'+cw%26))
			cw++
		}
	}
	out = append(out, mix)
	return out
}

func enumDM(c *core.Ctx, classLen int, allLengths bool) {
	Words(dmClass, 0, classLen, func(w string, _ int) bool {
		Run(c, &core.Case{Fam: "dm", S: []byte(w)})
		return true
	})
	allBytePairs(func(b []byte) { Run(c, &core.Case{Fam: "dm", S: append([]byte(nil), b...)}) })
	lens := map[int]bool{}
	if allLengths {
		for n := 0; n <= 1561; n++ {
			lens[n] = true
		}
	} else {
		for _, s := range dmdec.Sizes {
			for d := -2; d <= 2; d++ {
				if n := s.DataCodewords + d; n >= 0 {
					lens[n] = true
				}
			}
		}
		for n := 0; n <= 12; n++ {
			lens[n] = true
		}
	}
	var ls []int
	for n := range lens {
		ls = append(ls, n)
	}
	sort.Ints(ls)
	for _, n := range ls {
		for _, content := range dmByCodewords(n) {
			Run(c, &core.Case{Fam: "dm", S: content})
		}
	}
}

func c02Body(c *core.Ctx) {
	foreignWarmup(c, "dm")
	defer seqPairs(c, "dm")
	cl := pick(c, 6, 7)
	enumDM(c, cl, c.Thorough())
	c.R.Bound("class_words", fmt.Sprintf("all words <= %d over %q", cl, dmClass))
	c.R.Bound("bytes", "all 256 single bytes and all 65536 byte pairs")
	if c.Thorough() {
		c.R.Bound("codeword_grid", "every reference codeword count 0..1561 reached five ways (letters, digit pairs, odd digit run, upper-shift bytes, mixture)")
	} else {
		c.R.Bound("codeword_grid", "reference codeword counts within +-2 of each of the 24 capacities and 0..12, reached five ways")
	}
	c.R.Sample(map[string]any{"content": "A\x800", "expect": "codewords 66, 235 1, 49 then pad 129 + 253-state pads; 10x10"})
}

// ---- C01 QR ----------------------------------------------------------------------------

var qrClass = []string{"0", "7", "A", "Z", " ", ":", "+", "-", "a", "é", "\xff", "\x00",
	// runes above U+00FF whose low byte is a digit / a letter of the alphanumeric set (a table indexed by a truncated rune must not absorb them)
	"İ", "Ł"}

// qrCap returns the largest character count that fits version v at the level in the mode.
func qrCap(mode, level, v int) int {
	lo, hi := 0, 8000
	for lo < hi {
		mid := (lo + hi + 1) / 2
		mv := qrdec.MinVersion(mode, level, mid)
		if mv != 0 && mv <= v {
			lo = mid
		} else {
			hi = mid - 1
		}
	}
	return lo
}

func qrFill(mode, n int) []byte {
	switch mode {
	case 1:
		return []byte(Filler("0123456789", n))
	case 2:
		return []byte(Filler(qrdec.AlphanumericCharset, n))
	}
	b := byteFiller(n)
	if n > 0 {
		b[0] = 'q' // never all digits / alphanumeric
	}
	return b
}

func enumQR(c *core.Ctx, classLen int, pairs bool, allLengths bool) {
	for lvl := 0; lvl < 4; lvl++ {
		for mode := 0; mode < 4; mode++ {
			P := []int{lvl, mode}
			Words(qrClass, 0, classLen, func(w string, _ int) bool {
				Run(c, &core.Case{Fam: "qr", S: []byte(w), P: P})
				return true
			})
			for x := 0; x < 256; x++ {
				Run(c, &core.Case{Fam: "qr", S: []byte{byte(x)}, P: P})
			}
			if pairs {
				Words(letters(qrdec.AlphanumericCharset), 2, 2, func(w string, _ int) bool {
					Run(c, &core.Case{Fam: "qr", S: []byte(w), P: P})
					return true
				})
			}
		}
	}
	// macro words over groups: numeric mode packs 3 characters, alphanumeric 2; a foreign character
	// at every position of every group of a short content
	numChunks := []string{"012", "+12", "-00", "1+2", "12+", "9", "+4", "-0", "+", "00-"}
	alnChunks := []string{"AB", "A", "a", " $", "%a", "b:", "9"}
	for lvl := 0; lvl < 4; lvl += 3 {
		for _, mode := range []int{0, 1} {
			Words(numChunks, 2, 3, func(w string, _ int) bool {
				Run(c, &core.Case{Fam: "qr", S: []byte(w), P: []int{lvl, mode}})
				return true
			})
		}
		for _, mode := range []int{0, 2} {
			Words(alnChunks, 2, 3, func(w string, _ int) bool {
				Run(c, &core.Case{Fam: "qr", S: []byte(w), P: []int{lvl, mode}})
				return true
			})
		}
	}
	// capacity grid: explicit modes and Auto on the same fillers
	refModes := []int{1, 2, 4}
	explicit := map[int]int{1: 1, 2: 2, 4: 3}
	for lvl := 0; lvl < 4; lvl++ {
		for _, rm := range refModes {
			lens := map[int]bool{}
			if allLengths {
				for n := 0; n <= qrCap(rm, 0, 40)+1; n++ {
					lens[n] = true
				}
			} else {
				for v := 1; v <= 40; v++ {
					cp := qrCap(rm, lvl, v)
					for _, n := range []int{cp - 1, cp, cp + 1} {
						if n >= 0 {
							lens[n] = true
						}
					}
				}
			}
			var ls []int
			for n := range lens {
				ls = append(ls, n)
			}
			sort.Ints(ls)
			for _, n := range ls {
				content := qrFill(rm, n)
				Run(c, &core.Case{Fam: "qr", S: content, P: []int{lvl, explicit[rm]}})
				Run(c, &core.Case{Fam: "qr", S: content, P: []int{lvl, 0}})
			}
		}
	}
}

// farQR: every length from just above the capacity of version 40 up to beyond the point where a
// 16-bit count of payload bits wraps, plus windows around 2^15 and 2^16 characters: oversize content
// must be refused whatever integer type an implementation counts in (accepted = truncated symbol).
func farQR(c *core.Ctx, levels []int) {
	for _, lvl := range levels {
		for _, sp := range []struct{ rm, enc, hi int }{{1, 1, 19800}, {2, 2, 12000}, {4, 3, 8260}} {
			lo := qrCap(sp.rm, lvl, 40) + 2
			var ls []int
			for n := lo; n <= sp.hi; n++ {
				ls = append(ls, n)
			}
			for _, w := range []int{1 << 15, 1 << 16} {
				for n := w - 4; n <= w+4; n++ {
					ls = append(ls, n)
				}
			}
			for _, n := range ls {
				content := qrFill(sp.rm, n)
				Run(c, &core.Case{Fam: "qr", S: content, P: []int{lvl, sp.enc}})
				Run(c, &core.Case{Fam: "qr", S: content, P: []int{lvl, 0}})
			}
		}
	}
}

func c01Body(c *core.Ctx) {
	foreignWarmup(c, "qr")
	defer seqPairs(c, "qr")
	cl := pick(c, 3, 4)
	enumQR(c, cl, true, c.Thorough())
	if c.Thorough() {
		farQR(c, []int{0, 1, 2, 3})
	} else {
		farQR(c, []int{0})
	}
	c.R.Bound("far_oversize", "every length from capacity(40)+2 to 19 800 digits / 12 000 alphanumeric / 8 260 bytes (beyond a 16-bit wrap of the payload bit count) and +-4 around 2^15 and 2^16 characters, explicit mode and Auto (quick: level L; thorough: all levels): accepted oversize content would decode to something else")
	c.R.Bound("class_words", fmt.Sprintf("all words <= %d over %q x 4 levels x 4 modes", cl, qrClass))
	c.R.Bound("alphabet", "all 256 single bytes and all 45^2 alphanumeric pairs x 4 levels x 4 modes")
	c.R.Bound("group_macro_words", "all words of 2..3 chunks over 10 numeric-group chunks (sign or foreign character at every position of a 3-digit group) and 7 alphanumeric-pair chunks, levels L and H, explicit mode and Auto")
	if c.Thorough() {
		c.R.Bound("capacity_grid", "every length 0..capacity(40-L)+1 for digit, alphanumeric and byte fillers x 4 levels, in the explicit mode and in Auto")
	} else {
		c.R.Bound("capacity_grid", "lengths cap-1, cap, cap+1 for each of 40 versions x 4 levels x {numeric, alphanumeric, byte}, in the explicit mode and in Auto")
	}
	c.R.Sample(map[string]any{"content": "+12", "level": "L", "mode": "Numeric", "expect": "refused, or a symbol whose numeric segment decodes to +12 (impossible): digits only"})
	c.R.Sample(map[string]any{"content": "HELLO WORLD", "level": "Q", "mode": "Auto", "expect": "version 1, alphanumeric segment, mask chosen by the encoder, all RS blocks valid"})
}

// ---- C03 Aztec ---------------------------------------------------------------------------

var azClass = []string{"A", "a", "0", " ", ".", ",", ":", "\r", "\n", "@", "!", "\x80"}

// azMaxLen finds, with the encoder itself, the longest filler prefix the request accepts
// (used only to place round-trip cases at the capacity boundary).
func azMaxLen(fill func(n int) []byte, pct, layers, hi int) int {
	lo := 0
	for lo < hi {
		mid := (lo + hi + 1) / 2
		if azAccepts(fill(mid), pct, layers) {
			lo = mid
		} else {
			hi = mid - 1
		}
	}
	return lo
}

var azFills = []func(n int) []byte{
	func(n int) []byte { return []byte(Filler("ABCDEFGHIJKLMNOPQRSTUVWXYZ ", n)) },
	func(n int) []byte { return []byte(Filler("0123456789", n)) },
	func(n int) []byte {
		b := byteFiller(n)
		for i := range b {
			b[i] |= 0x80
		}
		return b
	},
	func(n int) []byte { return []byte(Filler("Ab1. ,x:9@!\r\nZ", n)) },
	// payloads that need heavy bit stuffing (long runs of equal bits)
	func(n int) []byte { return make([]byte, n) },
	func(n int) []byte { return []byte(strings.Repeat("\xff", n)) },
	func(n int) []byte {
		b := make([]byte, n)
		copy(b, "ACME-0042")
		return b
	},
}

// azMacro: runs long enough to make the encoder latch (a single foreign character is shifted): every
// ordered combination of runs exercises one latch path of the five-mode automaton, incl. the long
// ones out of Digit mode
var azMacro = []string{"ABCD", "abcd", "2024", "((((", "!!))", "@@@@", "^_|~", ". , ", "\r\n\r\n", "\x80\x81\x82", " ", "5"}

func enumAztec(c *core.Ctx, classLen int, thorough bool) {
	Words(azMacro, 2, 3, func(w string, _ int) bool {
		Run(c, &core.Case{Fam: "az", S: []byte(w), P: []int{33, 0}})
		return true
	})
	// punctuation pairs are the densest content per byte (5 bits for 2 bytes): more bytes than any
	// other content can have and still fit
	for _, kp := range [][2]int{{2497, 0}, {2497, 23}, {2497, 33}, {2900, 33}, {3200, 23}, {3900, 0}, {5, 33}, {700, 33}} {
		Run(c, &core.Case{Fam: "az", S: []byte(strings.Repeat(". ", kp[0])), P: []int{kp[1], 0}})
	}
	Words(azClass, 0, classLen, func(w string, _ int) bool {
		Run(c, &core.Case{Fam: "az", S: []byte(w), P: []int{33, 0}})
		return true
	})
	allBytePairs(func(b []byte) { Run(c, &core.Case{Fam: "az", S: append([]byte(nil), b...), P: []int{33, 0}}) })
	// binary-shift runs around the 31 / 62 / 2078 thresholds, in every mode context
	ctxs := []string{"", "A", "a", "0", ".", "@", "b1"}
	var ks []int
	for k := 1; k <= 70; k++ {
		ks = append(ks, k)
	}
	for k := 2074; k <= 2082; k++ {
		ks = append(ks, k)
	}
	for _, k := range ks {
		run := byteFiller(k)
		for i := range run {
			run[i] |= 0x80
		}
		pct := 33
		if k > 1000 {
			pct = 5
		}
		for _, pre := range ctxs {
			for _, suf := range ctxs {
				if k > 1000 && (len(pre) > 1 || len(suf) > 1) {
					continue
				}
				s := append(append([]byte(pre), run...), suf...)
				Run(c, &core.Case{Fam: "az", S: s, P: []int{pct, 0}})
			}
		}
	}
	// parameter grid at the capacity boundary of every explicit layer request
	pcts := []int{0, 33, 90}
	if thorough {
		pcts = []int{0, 1, 5, 23, 33, 50, 90, 100, 150, 400}
	}
	for _, pct := range pcts {
		for layers := -5; layers <= 33; layers++ {
			for fi, fill := range azFills {
				if !thorough && (fi == 3 || fi == 6) {
					continue
				}
				if layers < -4 || layers > 32 {
					Run(c, &core.Case{Fam: "az", S: fill(3), P: []int{pct, layers}})
					continue
				}
				if !c.Mine() {
					continue
				}
				mx := azMaxLen(fill, pct, layers, 4200)
				for _, n := range []int{1, mx / 2, mx - 1, mx, mx + 1} {
					if n >= 0 {
						Exec(c, &core.Case{Fam: "az", S: fill(n), P: []int{pct, layers}})
					}
				}
			}
		}
	}
	// low percentages, every length through the compact sizes (and a sweep beyond), incl. payloads that
	// need heavy bit stuffing: the 64-word limit of compact symbols and the stuffed/unstuffed fit tests
	for _, p := range []int{0, 10, 16} {
		for n := 1; n <= 1900; n++ {
			if n > 200 && (n%7 != 0 || !thorough) {
				continue
			}
			for fi, fill := range azFills {
				if fi == 3 || fi == 6 {
					continue
				}
				Run(c, &core.Case{Fam: "az", S: fill(n), P: []int{p, 0}})
			}
		}
	}
	// automatic sizing over a length sweep
	step := 17
	if thorough {
		step = 1
	}
	for _, pct := range []int{23, 33} {
		for n := 0; n <= 1950; n += step {
			for _, fill := range azFills[:3] {
				Run(c, &core.Case{Fam: "az", S: fill(n), P: []int{pct, 0}})
			}
		}
	}
}

func c03Body(c *core.Ctx) {
	foreignWarmup(c, "az")
	defer seqPairs(c, "az")
	cl := pick(c, 4, 5)
	enumAztec(c, cl, c.Thorough())
	c.R.Bound("class_words", fmt.Sprintf("all words <= %d over %q at (33%%, auto)", cl, azClass))
	c.R.Bound("bytes", "all 256 single bytes and all 65536 byte pairs")
	c.R.Bound("macro_words", fmt.Sprintf("all words of 2..3 runs over %q (every latch path between the modes); runs of 5..3900 punctuation pairs", azMacro))
	c.R.Bound("binary_shift", "binary runs of 1..70 and 2074..2082 bytes between 7x7 mode contexts")
	c.R.Bound("parameter_grid", "every layer request -5..33 x ecc percentages x fillers at lengths 1, max/2, max-1, max, max+1 (max found by bisection on the encoder)")
	c.R.Bound("auto_sweep", fmt.Sprintf("lengths 0..1950 step %d x 3 fillers x {23,33}%%", map[bool]int{false: 17, true: 1}[c.Thorough()]))
	c.R.Sample(map[string]any{"payload": "A. b", "pct": 33, "layers": 0})
	c.R.Sample(map[string]any{"payload": "40 high bytes between 'a' and '0'", "pct": 33, "layers": 0, "expect": "binary shift with two 5-bit lengths (31 + 9)"})
}

// ---- C04 PDF417 ------------------------------------------------------------------------

var pdfClass = []string{"A", "a", "1", "&", ";", "\n", ",", " ", "\x80", "٣", "３"}
var pdfMacro = []string{"ABCDE", "abcde", "12&45", "1;;;;", "1;;;;;", "ab;cd", "\x80", "\x81\x82", "\x83\x84\x85\x86\x87\x88", "\x89\x8a\x8b\x8c\x8d\x8e\x8f",
	"123456789012", "1234567890123", strings.Repeat("7", 44), strings.Repeat("8", 45), "Z",
	strings.Repeat("٣", 6), strings.Repeat("３", 13), "\x7f",
	// runs of six and more (the shortest the encoder treats as a text segment after a byte), repeated runs
	"abcdef", "ABCDEF", "12&456", "hello!"}

func enumPDF(c *core.Ctx, classLen, macroLen int, thorough bool) {
	levels := []int{0, 2}
	if thorough {
		levels = []int{0, 1, 2, 3, 4, 5, 6, 7, 8}
	}
	for _, lv := range levels {
		cl := classLen
		if thorough && lv != 1 && cl > 5 {
			cl = 5
		}
		Words(pdfClass, 0, cl, func(w string, _ int) bool {
			Run(c, &core.Case{Fam: "pdf", S: []byte(w), P: []int{lv}})
			return true
		})
	}
	allBytePairs(func(b []byte) { Run(c, &core.Case{Fam: "pdf", S: append([]byte(nil), b...), P: []int{1}}) })
	for _, lv := range []int{0, 3} {
		Words(pdfMacro, 1, macroLen, func(w string, _ int) bool {
			Run(c, &core.Case{Fam: "pdf", S: []byte(w), P: []int{lv}})
			return true
		})
	}
	// byte compaction packs 6 bytes into 5 base-900 digits, numeric compaction 44 digits into 15: groups
	// whose value sits at every power of 900 (a leading base-900 digit that is zero), zero, maximal
	// and generic groups, in every order, with and without a tail
	b6 := func(v uint64) string {
		return string([]byte{byte(v >> 40), byte(v >> 32), byte(v >> 24), byte(v >> 16), byte(v >> 8), byte(v)})
	}
	byteGroups := []string{b6(0), b6(1), b6(899), b6(900), b6(900*900 - 1), b6(900 * 900), b6(900*900*900 - 1), b6(900 * 900 * 900),
		b6(900*900*900*900 - 1), b6(900 * 900 * 900 * 900), b6(1<<48 - 1), "\x80\x81\x82\x83\x84\x85", "\x00\x41\x00\x42\x00\x43"}
	for _, lv := range []int{0, 2} {
		Words(byteGroups, 1, 3, func(w string, n int) bool {
			if n == 3 && lv != 0 {
				return true
			}
			Run(c, &core.Case{Fam: "pdf", S: []byte(w), P: []int{lv}})
			Run(c, &core.Case{Fam: "pdf", S: []byte(w + "\x01"), P: []int{lv}})
			return true
		})
	}
	z43 := strings.Repeat("0", 43)
	numGroups := []string{z43 + "0", "1" + z43, strings.Repeat("9", 44), z43 + "1", "31415926535897932384626433832795028841971693", "000000000000000000000000000000" + "12345678901234"}
	Words(numGroups, 1, 3, func(w string, _ int) bool {
		for _, tail := range []string{"", "5", "000000000000000", "x"} {
			Run(c, &core.Case{Fam: "pdf", S: []byte(w + tail), P: []int{1}})
		}
		return true
	})
	fills := []func(n int) []byte{
		func(n int) []byte { return []byte(Filler("ABCDEFGHIJKLMNOPQRSTUVWXYZ ", n)) },
		func(n int) []byte { return []byte(Filler("aB1;& ,z\nQ:x", n)) },
		func(n int) []byte { return []byte(Filler("0123456789", n)) },
		func(n int) []byte {
			b := byteFiller(n)
			for i := range b {
				b[i] |= 0x80
			}
			return b
		},
	}
	// the capacity boundary of every level: 900 codewords is the largest symbol (30 x 30)
	for lv := 0; lv <= 8; lv++ {
		full := 2 * (899 - (2 << uint(lv)))
		for n := full - 3; n <= full+2; n++ {
			Run(c, &core.Case{Fam: "pdf", S: fills[0](n), P: []int{lv}})
		}
	}
	gridLevels := []int{0, 1, 2, 4, 8}
	if thorough {
		gridLevels = []int{0, 1, 2, 3, 4, 5, 6, 7, 8}
	}
	for _, lv := range gridLevels {
		for n := 0; n <= 2700; n++ {
			if !thorough && !(n < 64 || n%13 == 0) {
				continue
			}
			for fi, fill := range fills {
				if (fi == 0 || fi == 1) && n > 1900 || fi == 3 && n > 1150 {
					continue
				}
				Run(c, &core.Case{Fam: "pdf", S: fill(n), P: []int{lv}})
			}
		}
	}
}

func c04Body(c *core.Ctx) {
	foreignWarmup(c, "pdf")
	defer seqPairs(c, "pdf")
	cl, ml := pick(c, 5, 7), pick(c, 4, 5)
	enumPDF(c, cl, ml, c.Thorough())
	c.R.Bound("class_words", fmt.Sprintf("all words <= %d over %q (quick: levels 0,2; thorough: level 1 to length %d, other levels to 5)", cl, pdfClass, cl))
	c.R.Bound("bytes", "all 256 single bytes and all 65536 byte pairs at level 1")
	c.R.Bound("macro_words", fmt.Sprintf("all words of 1..%d chunks over 15 segment chunks at levels 0 and 3", ml))
	c.R.Bound("length_grid", "text/mixed/digit/byte fillers of length 0..2700 (quick: < 64 and multiples of 13) x levels")
	c.R.Bound("group_words", "all words of 1..3 six-byte groups over 13 groups (values 0, 1, 900^k-1, 900^k for k=1..4, 2^48-1, two generic) with and without a trailing byte; all words of 1..3 44-digit groups over 6 groups (all zero, leading/trailing one, all nine, generic, 30 leading zeros) x 4 tails")
	c.R.Sample(map[string]any{"data": "1;;;;\x80;;;;;;", "level": 0, "expect": "text segment ending in Punctuation with an odd number of values is padded with 29 (= latch to Alpha); after the 913 byte shift the text must resume in Alpha"})
	c.R.Sample(map[string]any{"data": "ABCDE1234567890123", "level": 2, "expect": "text compaction then 902 numeric latch"})
}

func init() {
	as2d := []string{
		"small-scope: exhaustive up to the stated word lengths; longer contents through the stated grids, fillers and macro words",
		"reference decoders in harness/oracle are written from the ISO standards and share no table with /repo (PDF417: the 3x929 bar-space table is read through a hook, validated structurally and pinned by digest)",
	}
	register(&Check{ID: "C01", Engine: "E", Body: c01Body, Assumptions: as2d,
		Rule: "bounded exhaustive enumeration of QR contents x 4 levels x 4 modes (class words, all bytes, all alphanumeric pairs, capacity grid over all 40 versions); every returned symbol is decoded from its pixels by an independent strict ISO 18004 reader (function patterns, BCH format/version words, unmask, de-interleave with own Table 9, all RS syndromes, segments, terminator, pads). A state is a distinct (version, level, mask)."})
	register(&Check{ID: "C02", Engine: "E", Body: c02Body, Assumptions: as2d,
		Rule: "bounded exhaustive enumeration of DataMatrix contents (class words, all byte pairs, every/boundary codeword counts reached five ways); independent strict ECC 200 reader (finder/clock of every region, Annex F placement, RS syndromes per interleaved block, ASCII decodation, 253-state pads). A state is a distinct symbol size with its placement features."})
	register(&Check{ID: "C03", Engine: "E", Body: c03Body, Assumptions: as2d,
		Rule: "bounded exhaustive enumeration of Aztec payloads x ecc percentage x layer request (class words, all byte pairs, binary-shift runs around every threshold in every mode context, capacity boundary of every explicit layer request, automatic length sweep); independent strict ISO 24778 reader. A state is a distinct (compact, layers, word size) or a distinct latch/shift transition observed."})
	register(&Check{ID: "C04", Engine: "E", Body: c04Body, Assumptions: as2d,
		Rule: "bounded exhaustive enumeration of PDF417 data x security level (class words over one representative per sub-mode class, all byte pairs, macro words over segment chunks that drive the compaction automaton, length grid); independent strict ISO 15438 reader (start/stop, clusters, row indicators, RS over GF(929), text/byte/numeric compaction). A state is a distinct (rows, cols), level or compaction transition observed."})
}
