package checks

import (
	"fmt"
	"os"
	"os/exec"
	"strconv"
	"strings"
	"sync"
	"time"

	"github.com/boombuler/barcode"
	"github.com/boombuler/barcode/datamatrix"
	"github.com/boombuler/barcode/qr"
	"github.com/boombuler/barcode/utils"

	"verif/core"
	"verif/oracle/qrdec"
	"verif/sched"
)

// ---- harness construction ------------------------------------------------------------------
// A harness is identified by its descriptor (Ops of the Case): ["S1", "2", "3", ...] etc.

func schedHarness(desc []string) (sched.Harness, error) {
	name := strings.Join(desc, " ")
	atoi := func(s string) int { n, _ := strconv.Atoi(s); return n }
	switch desc[0] {
	case "S1": // shared cache of one fresh encoder, statement granularity: S1 <field> deg...
		f := knownFields[atoi(desc[1])]
		rf := refField{f.pp, f.size}
		var degs []int
		for _, d := range desc[2:] {
			degs = append(degs, atoi(d))
		}
		return sched.Harness{Name: name, Policy: sched.ThreadLevel, Setup: func() ([]func(), func(*sched.Exec) (string, string)) {
			enc := utils.NewReedSolomonEncoder(realField(f))
			res := make([][]int, len(degs))
			var bodies []func()
			for i, d := range degs {
				i, d := i, d
				data := rsData([]string{"count", "lead0", "hi"}[i%3], f, d)
				bodies = append(bodies, func() { res[i] = enc.Encode(append([]int(nil), data...), d) })
			}
			return bodies, func(x *sched.Exec) (string, string) {
				for i, d := range degs {
					data := rsData([]string{"count", "lead0", "hi"}[i%3], f, d)
					if msg := rsCheck(rf, f, data, d, res[i]); msg != "" {
						return fmt.Sprintf("call %d Encode(_, %d): %s", i, d, msg), ""
					}
				}
				cache := utils.VerifRSCache(enc)
				if msg := rsCacheCheck(rf, f, cache); msg != "" {
					return msg, ""
				}
				return "", fmt.Sprintf("cache len %d", len(cache))
			}
		}}, nil
	case "S2": // cross-call on cold package state: S2 op op [op]
		ops := append([]pureOp(nil), pureOps()...)
		fresh0, err := freshObservations()
		if err != nil {
			return sched.Harness{}, err
		}
		fresh := map[string]string{}
		for k, v := range fresh0 {
			fresh[k] = v
		}
		var idx []int
		for _, n := range desc[1:] {
			if strings.HasPrefix(n, "call:") { // an arbitrary encoder call given by its descriptor
				cl, err := parseCall(n[5:])
				if err != nil {
					return sched.Harness{}, err
				}
				fo, err := freshCall(cl)
				if err != nil {
					return sched.Harness{}, err
				}
				fresh[n] = fo
				ops = append(ops, pureOp{n, cl.run})
				idx = append(idx, len(ops)-1)
				continue
			}
			i, ok := pureOpIdx[n]
			if !ok {
				return sched.Harness{}, fmt.Errorf("unknown op %q", n)
			}
			idx = append(idx, i)
		}
		return sched.Harness{Name: name, Policy: sched.GroupLevel, Setup: func() ([]func(), func(*sched.Exec) (string, string)) {
			resetCaches()
			obs := make([]string, len(idx))
			var bodies []func()
			for k, i := range idx {
				k, i := k, i
				bodies = append(bodies, func() { obs[k] = observe(ops[i].run()) })
			}
			return bodies, func(x *sched.Exec) (string, string) {
				for k, i := range idx {
					if obs[k] != fresh[ops[i].name] {
						return fmt.Sprintf("call %d (%s) returned observation %s, alone in a fresh process it returns %s", k, ops[i].name, obs[k], fresh[ops[i].name]), ""
					}
				}
				if msg := rsCacheCheck(refField{0x11D, 256}, fieldSpec{0x11D, 256, 0}, qr.VerifCacheState()); msg != "" {
					return "qr cache: " + msg, ""
				}
				if msg := rsCacheCheck(refField{0x12D, 256}, fieldSpec{0x12D, 256, 1}, datamatrix.VerifCacheState()); msg != "" {
					return "datamatrix cache: " + msg, ""
				}
				return "", cachesKeyShort()
			}
		}}, nil
	case "S3a": // iterateModules: S3a <dim|v1>
		var dim int
		var occ func(x, y int) bool
		if desc[1] == "v1" {
			dim, occ = qr.VerifV1Occupied()
		} else {
			dim = atoi(desc[1])
			if dim < 9 || dim%4 != 1 {
				return sched.Harness{}, fmt.Errorf("iterateModules needs a QR-like dimension (9, 13, 17, ...)")
			}
			occ = func(x, y int) bool { return (x*3+y*5)%4 == 0 || x == 6 || y == 6 }
		}
		want := refIterate(dim, occ)
		return sched.Harness{Name: name, Policy: sched.ThreadLevel, Setup: func() ([]func(), func(*sched.Exec) (string, string)) {
			var got []int
			return []func(){func() { got = qr.VerifIterateModules(dim, occ) }}, func(x *sched.Exec) (string, string) {
				if fmt.Sprint(got) != fmt.Sprint(want) {
					return fmt.Sprintf("iterateModules(%d) visited %v, reference zig-zag %v", dim, truncInts(got), truncInts(want)), ""
				}
				return "", fmt.Sprintf("%d points", len(got))
			}
		}}, nil
	case "S3b": // encodeAlphaNumeric: S3b <level> <content>
		lvl := qrLevels[atoi(desc[1])]
		content := desc[2]
		var wb []byte
		var wv int
		var werr error
		underSched(func() { wb, wv, werr = qr.VerifEncodeAlphaNumeric(content, lvl) })
		return sched.Harness{Name: name, Policy: sched.ThreadLevel, Setup: func() ([]func(), func(*sched.Exec) (string, string)) {
			var gb []byte
			var gv int
			var gerr error
			return []func(){func() { gb, gv, gerr = qr.VerifEncodeAlphaNumeric(content, lvl) }}, func(x *sched.Exec) (string, string) {
				if (gerr == nil) != (werr == nil) || string(gb) != string(wb) || gv != wv {
					return fmt.Sprintf("encodeAlphaNumeric(%q) = % x v%d err=%v; alone: % x v%d err=%v", content, gb, gv, gerr, wb, wv, werr), ""
				}
				return "", fmt.Sprintf("err=%v", gerr != nil)
			}
		}}, nil
	case "S3c": // splitToBlocks(IterateBytes()): S3c <version> <level>
		v, l := byte(atoi(desc[1])), qrLevels[atoi(desc[2])]
		var want []byte
		underSched(func() { qr.VerifReset(); want = qr.VerifSplitToBlocks(v, l) })
		return sched.Harness{Name: name, Policy: sched.ThreadLevel, Setup: func() ([]func(), func(*sched.Exec) (string, string)) {
			qr.VerifReset()
			var got []byte
			return []func(){func() { got = qr.VerifSplitToBlocks(v, l) }}, func(x *sched.Exec) (string, string) {
				if string(got) != string(want) || len(got) == 0 {
					return fmt.Sprintf("splitToBlocks(v%d) = % x, alone % x", v, truncB(got), truncB(want)), ""
				}
				return "", fmt.Sprintf("%d codewords", len(got))
			}
		}}, nil
	case "S3e": // one whole qr.Encode per version (default schedule + probes only): S3e <version>
		v := atoi(desc[1])
		l := s3eLevel(v)
		content := string(qrFill(2, qrCap(2, l, v)))
		lv := qrLevels[l]
		var want string
		underSched(func() { qr.VerifReset(); want = observe(qr.Encode(content, lv, qr.AlphaNumeric)) })
		return sched.Harness{Name: name, Policy: sched.ThreadLevel, ProbesOnly: true, Setup: func() ([]func(), func(*sched.Exec) (string, string)) {
			qr.VerifReset()
			var got string
			return []func(){func() { got = observe(qr.Encode(content, lv, qr.AlphaNumeric)) }}, func(x *sched.Exec) (string, string) {
				if got != want || got == "error" {
					return fmt.Sprintf("qr.Encode of a version %d symbol observed %s, under the default schedule %s", v, got, want), ""
				}
				return "", "ok"
			}
		}}, nil
	case "S3d": // a whole qr.Encode: S3d <level> <mode> <content>
		lvl, mode, content := atoi(desc[1]), atoi(desc[2]), desc[3]
		// reference: the same call alone in a freshly started process
		fresh, err := freshObservations()
		if err != nil {
			return sched.Harness{}, err
		}
		want, ok := fresh[s3dName(lvl, mode, content)]
		if !ok {
			return sched.Harness{}, fmt.Errorf("no fresh-process observation registered for %v", desc)
		}
		return sched.Harness{Name: name, Policy: sched.ThreadLevel, Setup: func() ([]func(), func(*sched.Exec) (string, string)) {
			qr.VerifReset()
			var got string
			return []func(){func() { got = observe(qr.Encode(content, qrLevels[lvl], qrModes[mode])) }}, func(x *sched.Exec) (string, string) {
				if got != want {
					return fmt.Sprintf("qr.Encode(%q) observed %s, alone %s", content, got, want), ""
				}
				return "", got
			}
		}}, nil
	}
	return sched.Harness{}, fmt.Errorf("unknown harness %q", desc[0])
}

// underSched runs fn as a single call under the scheduler with the default schedule, so that
// no free-running goroutine of the library exists in this process (a straggler would reach
// the shims of a later exploration).
func underSched(fn func()) {
	sched.Run([]func(){fn}, nil, sched.ThreadLevel, false)
}

func s3dName(lvl, mode int, content string) string {
	return fmt.Sprintf("s3d:%d:%d:%s", lvl, mode, content)
}

// the 41-digit and 25-character contents fill version 1-L to within 0..3 bits of its capacity
// (terminator shorter than four bits): the byte stream and the block reader must still agree
var s3dCases = [][2]string{{"1", "0123"}, {"2", "AB1"}, {"3", "hé"}, {"0", "7"}, {"1", "12a"}, {"2", "ab"},
	{"1", "01234567890123456789012345678901234567890"}, {"2", "ABCDEFGHIJKLMNOPQRSTUVWXY"},
	// short contents whose two best masks have the same penalty on the pinned tree: whatever
	// order concurrent scorers report in, the call must return what it returns alone
	{"0", "31"}, {"0", "188"},
	// refused for size (every early return must leave no goroutine behind)
	{"2", strings.Repeat("A", 4297)}, {"1", strings.Repeat("7", 7090)}, {"0", strings.Repeat("Z", 4297)}, {"3", strings.Repeat("z", 2954)}}

// s3eLevel picks, for the one whole-symbol run per version, the level whose data bit count has the most
// trailing zero bits (a symbol that fills a power-of-two sized buffer exactly, e.g. 21-Q = 4096 bits),
// the levels rotating otherwise.
func s3eLevel(v int) int {
	best, bestTZ := v%4, -1
	for k := 0; k < 4; k++ {
		l := (v + k) % 4
		g1, d1, g2, d2, _ := qrdec.BlockLayout(v, l)
		bits := 8 * (g1*d1 + g2*d2)
		tz := 0
		for bits > 0 && bits%2 == 0 {
			tz++
			bits /= 2
		}
		if tz > bestTZ && tz >= 10 {
			best, bestTZ = l, tz
		}
	}
	return best
}

func cachesKeyShort() string {
	return fmt.Sprintf("qr cache %d, dm cache %d", len(qr.VerifCacheState()), len(datamatrix.VerifCacheState()))
}

// refIterate is the reference zig-zag: two-module columns from the right, upwards first,
// skipping column 6, visiting only unoccupied modules.
func refIterate(dim int, occ func(x, y int) bool) []int {
	var out []int
	up := true
	for x := dim - 1; x >= 0; x -= 2 {
		if x == 6 {
			x--
		}
		for i := 0; i < dim; i++ {
			y := i
			if up {
				y = dim - 1 - i
			}
			for _, xx := range []int{x, x - 1} {
				if xx >= 0 && !occ(xx, y) {
					out = append(out, xx*dim+y)
				}
			}
		}
		up = !up
	}
	return out
}

// sched: Ops = harness descriptor, P = schedule (choice prefix). Replays that one schedule
// (twice, with identical traces required) and reports the verdict.
func evalSched(c *core.Ctx, cs *core.Case) {
	h, err := schedHarness(cs.Ops)
	if err != nil {
		c.Fail("C16", cs, "cannot build harness: %v", err)
		return
	}
	v, trace, err := sched.Replay(h, cs.P)
	if err != nil {
		fmt.Fprintf(os.Stderr, "CHECK-BROKEN: %v\n", err)
		os.Exit(2)
	}
	c.R.Transitions += int64(len(trace))
	if v != "" {
		c.Fail("C16", cs, "%s\n  schedule (choice indices, canonical order: running thread first, then ascending ids): %v\n  last transitions: %v", v, cs.P, tail(trace, 14))
	}
}

func tail(s []string, n int) []string {
	if len(s) > n {
		return s[len(s)-n:]
	}
	return s
}

var schedBroken sync.Once

// exploreUnit runs the bounded exploration of one harness, on this shard only (whole) or
// spread over all shards (spread).
func exploreUnit(c *core.Ctx, desc []string, bound int, spread bool) {
	if only := os.Getenv("VERIF_C16_ONLY"); only != "" && !strings.HasPrefix(strings.Join(desc, " "), only) {
		return
	}
	t0 := time.Now()
	defer func() {
		if os.Getenv("VERIF_DEBUG") != "" {
			fmt.Fprintf(os.Stderr, "shard %d unit %v: %.2fs\n", c.Shard, desc, time.Since(t0).Seconds())
		}
	}()
	shard, n := 0, 1
	if spread {
		shard, n = c.Shard, c.NShards
	} else if !c.Mine() {
		return
	}
	if !qr.VerifInternals && (desc[0] == "S3a" || desc[0] == "S3b" || desc[0] == "S3c") {
		c.R.NotDone("harnesses %s need the seams into private functions of package qr, which do not compile against the current sources (stub in use); the whole-call harnesses S3d/S3e cover the same pipelines from outside", desc[0])
		return
	}
	cs0 := &core.Case{Fam: "sched", Ops: desc}
	c.Begin(cs0) // building the harness runs the calls once for reference: a call that never returns is caught by the watchdog
	h, err := schedHarness(desc)
	c.End()
	if err != nil {
		c.Fail("C16", cs0, "cannot build harness: %v", err)
		return
	}
	h.OnSchedule = func() { c.Begin(cs0) }         // the hang watchdog watches single executions
	h.StateKeys = strings.HasPrefix(desc[0], "S3") // single-call pipelines interact only through hooked channel operations
	// the group-level reduction of the cross-call harnesses assumes that the calls share no channel; if
	// the current sources make them share one (a process-wide semaphore or queue), the harness is explored
	// at thread level instead (every enabled thread at every point), within the unit budget
	premiseBroken := func(msg string) bool {
		return h.Policy == sched.GroupLevel && strings.Contains(msg, "premise of the group-level reduction")
	}
	budget := pick(c, 60, 1500) // seconds per unit
	toThreadLevel := func() {
		h.Policy = sched.ThreadLevel
		budget = pick(c, 15, 120)
		c.R.NotDone("harnesses %s: concurrent calls share a channel, so the group-level reduction does not apply; explored at thread level within the unit budget", desc[0])
	}
	// determinism proof on the default schedule
	if _, _, err := sched.Replay(h, nil); err != nil {
		if premiseBroken(err.Error()) {
			toThreadLevel()
			_, _, err = sched.Replay(h, nil)
		}
		if err != nil {
			fmt.Fprintf(os.Stderr, "CHECK-BROKEN: harness %v: %v\n", desc, err)
			os.Exit(2)
		}
	}
	var st sched.Stats
retry:
	// per-unit budget: a unit that does not finish within it is reported as incomplete (never an alarm)
	unitDeadline := time.Now().Add(time.Duration(budget) * time.Second)
	if !c.Deadline.IsZero() && c.Deadline.Before(unitDeadline) {
		unitDeadline = c.Deadline
	}
	lo := 0
	if bound < 0 {
		// unbounded: first the schedules with <= 1 preemption (shortest counterexamples), then everything
		for b := 0; b <= 1; b++ {
			st = sched.Explore(h, b, shard, n, unitDeadline)
			if st.Violation != nil || st.HardError != "" || !st.Complete || !st.Cut {
				break
			}
		}
		if st.Violation == nil && st.HardError == "" && st.Complete && st.Cut {
			st = sched.Explore(h, -1, shard, n, unitDeadline)
		}
		lo = 1 << 30
	}
	for b := lo; b <= bound; b++ { // iterative context bounding: the first counterexample has the fewest preemptions
		st = sched.Explore(h, b, shard, n, unitDeadline)
		if os.Getenv("VERIF_DEBUG") != "" {
			fmt.Fprintf(os.Stderr, "  %v bound %d: %d schedules %d points max %d states %d pruned %d cut=%v complete=%v %.1fs\n", desc, b, st.Schedules, st.Points, st.MaxPoints, st.States, st.Pruned, st.Cut, st.Complete, time.Since(t0).Seconds())
		}
		if st.Violation != nil || st.HardError != "" || !st.Complete || !st.Cut {
			break // !Cut: the bound did not exclude anything, i.e. every schedule was explored
		}
	}
	if st.HardError != "" && premiseBroken(st.HardError) {
		toThreadLevel()
		goto retry
	}
	c.End()
	if st.HardError != "" {
		fmt.Fprintf(os.Stderr, "CHECK-BROKEN: harness %v: %s\n", desc, st.HardError)
		os.Exit(2)
	}
	c.R.Evaluations += st.Schedules
	c.R.Transitions += st.Points
	if !st.Cut && st.Complete {
		c.R.Count("sched.units_with_every_schedule_explored", 1)
	}
	c.R.Count("sched.global_states."+desc[0], st.States)
	c.R.Count("sched.schedules."+desc[0], st.Schedules)
	c.R.Count("sched.points."+desc[0], st.Points)
	for e := range st.EndStates {
		c.R.State(desc[0] + " end: " + e)
	}
	if !st.Complete {
		c.R.NotDone("harness %v: unit budget/deadline reached inside preemption bound %d after %d schedules", desc, st.Bound, st.Schedules)
	}
	if strings.HasPrefix(desc[0], "S3") && len(st.SharedSeqs) > 1 {
		c.R.NotDone("harness %v: the sequence of shared-object operations differs between intra-call schedules (%d variants): the group-level reduction of S2 is not justified for this call", desc, len(st.SharedSeqs))
	}
	if st.Violation != nil {
		cs := &core.Case{Fam: "sched", Ops: desc, P: st.Violation.Schedule}
		c.Fail("C16", cs, "%s\n  found at preemption bound %d (%d preemptions) after %d schedules; schedule %v", st.Violation.Msg, st.Bound, st.Violation.Preempt, st.Schedules, st.Violation.Schedule)
	}
}

// ---- S4: free-running race pass (detector, not enumeration) ------------------------------------

func racePass(c *core.Ctx) {
	if only := os.Getenv("VERIF_C16_ONLY"); only != "" && only != "S4" {
		return
	}
	bin := os.Getenv("VERIF_RACEBIN")
	if bin == "" {
		c.R.NotDone("S4 race pass skipped: VERIF_RACEBIN not set")
		return
	}
	gcounts := []int{2, 8, 64}
	procs := []int{1, 2, 3, 4, 5, 6, 7, 16}
	failures := 0
	// baselines (written by check.sh): every operation once, sequentially, in a process with GOMAXPROCS=1
	baseFile := map[string]string{}
	for _, mode := range []string{"mixed", "qr", "rs", "same", "qrall", "color", "sharedsrc"} {
		f := fmt.Sprintf("%s/racebase.%s.json", os.Getenv("VERIF_RACEBASE"), mode)
		if st, err := os.Stat(f); err != nil || st.Size() < 3 {
			c.R.NotDone("S4: no GOMAXPROCS=1 baseline for mode %s", mode)
			continue
		}
		baseFile[mode] = f
	}
	for _, g := range gcounts {
		for _, p := range procs {
			for _, mode := range []string{"mixed", "qr", "rs", "same", "qrall", "color", "sharedsrc"} {
				if mode == "same" && g > 8 {
					continue // "same" runs every operation in g goroutines at once (g x ~75 goroutines)
				}
				if (mode == "qrall" && (g != 64 || (p != 1 && p != 4 && p != 7))) || (p%2 == 1 && p > 1 && mode != "qr" && mode != "qrall") {
					continue // odd processor counts: the QR modes only (worker-pool arithmetic); qrall is slow under -race
				}
				if !c.Mine() {
					continue
				}
				cs := &core.Case{Fam: "race", Ops: []string{mode}, P: []int{g, p}}
				c.Begin(cs)
				// deadlock timer: ten times what the sequential GOMAXPROCS=1 baseline of this mode took just now
				// (under the same machine load) plus half a minute, at least 45 s; 60 s if the baseline itself hung
				args := []string{"-mode", mode, "-goroutines", strconv.Itoa(g), "-timeout", strconv.Itoa(raceLimit(mode))}
				if baseFile[mode] != "" {
					args = append(args, "-baseline", baseFile[mode])
				}
				cmd := exec.Command(bin, args...)
				cmd.Env = append(os.Environ(), "GOMAXPROCS="+strconv.Itoa(p), "GORACE=halt_on_error=0 exitcode=66")
				out, err := cmd.CombinedOutput()
				c.End()
				c.R.Evaluations++
				c.R.Count("race.runs", 1)
				if err != nil {
					c.Fail("C16", cs, "free-running pass (%s, %d goroutines, GOMAXPROCS=%d, -race) failed: %v\n%s", mode, g, p, err, firstLines(string(out), 40))
					if failures++; failures >= 3 || strings.Contains(string(out), "did not return within") {
						c.R.NotDone("S4: stopped after %d failing configuration(s) in this shard (a configuration that does not return costs its whole timer)", failures)
						return
					}
				}
			}
		}
	}
}

func firstLines(s string, n int) string {
	lines := strings.Split(s, "\n")
	if len(lines) > n {
		lines = lines[:n]
	}
	return strings.Join(lines, "\n")
}

// race: replay of one free-running configuration.
// raceLimit is the deadlock timer of one race-pass configuration in seconds (see racePass).
func raceLimit(mode string) int {
	limit := 60
	if b, err := os.ReadFile(fmt.Sprintf("%s/racebase.%s.time", os.Getenv("VERIF_RACEBASE"), mode)); err == nil {
		if t, err := strconv.Atoi(strings.TrimSpace(string(b))); err == nil {
			if limit = 10*t + 30; limit < 45 {
				limit = 45
			}
		}
	}
	return limit
}

func evalRace(c *core.Ctx, cs *core.Case) {
	bin := os.Getenv("VERIF_RACEBIN")
	if bin == "" {
		return
	}
	f := fmt.Sprintf("%s/racebase.%s.json", os.Getenv("VERIF_RACEBASE"), cs.Ops[0])
	cmd := exec.Command(bin, "-mode", cs.Ops[0], "-goroutines", strconv.Itoa(cs.P[0]), "-baseline", f, "-timeout", strconv.Itoa(raceLimit(cs.Ops[0])))
	cmd.Env = append(os.Environ(), "GOMAXPROCS="+strconv.Itoa(cs.P[1]), "GORACE=halt_on_error=0 exitcode=66")
	if out, err := cmd.CombinedOutput(); err != nil {
		c.Fail("C16", cs, "free-running pass failed: %v\n%s", err, firstLines(string(out), 40))
	}
}

func c16Body(c *core.Ctx) {
	T := c.Thorough()
	if !sched.Instrumented {
		fmt.Fprintln(os.Stderr, "CHECK-BROKEN: C16 needs the instrumented build (tag verifsched)")
		os.Exit(2)
	}
	// S1: shared generator cache, statement granularity
	b1 := pick(c, 2, 3)
	for _, fi := range []int{0, 2} { // GF(256)/0x11D base 0 and GF(16)
		for a := 1; a <= 3; a++ {
			for b := 1; b <= 3; b++ {
				exploreUnit(c, []string{"S1", strconv.Itoa(fi), strconv.Itoa(a), strconv.Itoa(b)}, b1, false)
				if T {
					for d := 1; d <= 3; d++ {
						exploreUnit(c, []string{"S1", strconv.Itoa(fi), strconv.Itoa(a), strconv.Itoa(b), strconv.Itoa(d)}, 2, false)
					}
				}
			}
		}
	}
	if !T {
		// three overlapping calls (lost wake-ups and the like need a third party): a few tuples at bound 1
		for _, tup := range [][3]string{{"3", "1", "2"}, {"2", "2", "2"}, {"1", "2", "3"}, {"3", "3", "1"}} {
			exploreUnit(c, []string{"S1", "0", tup[0], tup[1], tup[2]}, 1, false)
		}
	}
	// S2: pairs (thorough: also triples) of top-level calls on cold package state
	ops := pureOps()
	var s2 []string
	for _, o := range ops {
		switch {
		case strings.HasPrefix(o.name, "qr:ec7("), strings.HasPrefix(o.name, "qr:ec17("), strings.HasPrefix(o.name, "qr:ec16("),
			strings.HasPrefix(o.name, "dm:ecc5("), strings.HasPrefix(o.name, "dm:ecc7("), o.name == "scale:qr":
			s2 = append(s2, o.name)
		}
	}
	b2 := pick(c, 2, 3)
	for i, a := range s2 {
		for j := i; j < len(s2); j++ {
			exploreUnit(c, []string{"S2", a, s2[j]}, b2, false)
			if T {
				for k := j; k < len(s2); k++ {
					exploreUnit(c, []string{"S2", a, s2[j], s2[k]}, 2, false)
				}
			}
		}
	}
	// S2b: two different calls of the same family, for every family: on the pinned tree these
	// calls share nothing and have no scheduling points (one schedule each); if a change makes them
	// share package-level state, the instrumenter puts a scheduling point before every statement
	// of the functions that touch it and the interleavings are explored
	cl := func(fam, content string, p ...int) string { return "call:" + call{fam, []byte(content), p}.String() }
	sib := [][2]string{
		{cl("pdf", "\x80\x81\x82\x83\x84\x85\x86abc", 0), cl("pdf", "\x90\x91\x92\x93\x94\x95\x96\x97\x98\x99\x9a\x9b", 0)},
		{cl("pdf", "Hello, World; 1234567890123456", 2), cl("pdf", "", 8)},
		{cl("pdf", "A", 8), cl("pdf", "", 8)},
		{cl("az", "Hello, World.", 33, 0), cl("az", "\x00\x01\x80 binary 12345 \r\n", 23, 0)},
		{cl("dm", "A1"), cl("dm", "0123456789abcdefghij\x80")},
		{cl("c128", "Ab12345\x01", 1), cl("c128", "98765 zyx", 0)},
		{cl("c39", "CODE-39 $%", 1, 0), cl("c39", "a~b", 1, 1)},
		{cl("c39", "Caf\u00e9", 1, 1), cl("c39", "a~b", 1, 1)},
		{cl("c93", "TEST93+/", 1, 0), cl("c93", "a~\x00", 1, 1)},
		{cl("ean", "1234567"), cl("ean", "590123412345")},
		{cl("ean", "12345a7"), cl("ean", "1234567")},
		{cl("codabar", "A12-$:/.+3B"), cl("codabar", "C999D")},
		{cl("tof", "12345", 0), cl("tof", "98", 0)},
		{cl("tof", "123456", 1), cl("tof", "9876", 1)},
		{cl("qr", "12a45", 1, 1), cl("qr", "12345", 1, 1)},
		{cl("qr", "AB1", 0, 2), cl("qr", "HELLO WORLD", 0, 0)},
		// the same symbol size under different colour schemes (and plain): each call keeps its own colours
		{cl("qr@6", "HELLO WORLD", 0, 0), cl("qr@7", "HELLO", 0, 0)},
		{cl("qr", "12345", 1, 1), cl("qr@6", "54321", 1, 1)},
		{cl("dm@6", "A1"), cl("dm@8", "B2")},
		{cl("az@6", "Hello", 33, 0), cl("az@8", "World", 33, 0)},
		{cl("pdf@6", "abc", 1), cl("pdf", "abd", 1)},
		{cl("c128@6", "Ab1", 1), cl("c128@8", "Ab2", 1)},
		{cl("ean@6", "1234567"), cl("ean", "7654321")},
	}
	for _, pr := range sib {
		exploreUnit(c, []string{"S2", pr[0], pr[1]}, b2, false)
	}
	// S3: intra-call pipelines
	for _, d := range []string{"9", "13"} {
		exploreUnit(c, []string{"S3a", d}, -1, false)
	}
	exploreUnit(c, []string{"S3a", "v1"}, -1, false)
	Words([]string{"A", "Z", ":", "a", "é"}, 0, 3, func(w string, _ int) bool {
		exploreUnit(c, []string{"S3b", "0", w}, -1, false)
		return true
	})
	for _, vl := range [][2]string{{"1", "0"}, {"3", "2"}, {"5", "2"}} {
		exploreUnit(c, []string{"S3c", vl[0], vl[1]}, -1, false)
	}
	for _, cm := range s3dCases {
		if !T && (cm[1] == "AB1" || cm[1] == "hé") {
			continue // quick: the alphanumeric pipeline is S3b's, byte mode has no pipeline of its own
		}
		if !T && cm[1] == "ABCDEFGHIJKLMNOPQRSTUVWXY" {
			// quick: the three-pipeline capacity case is explored by its default and probe schedules only
			// (S3e runs an alphanumeric capacity call of every version); the 41-digit case gets the full bound-0 exploration
			continue
		}
		b := -1
		if !T && cm[1] != "12a" && cm[1] != "ab" && len(cm[1]) < 1000 {
			b = 0 // quick: all non-preemptive schedules of the successful whole calls; the component pipelines are explored exhaustively by S3a-c
		}
		exploreUnit(c, []string{"S3d", "0", cm[0], cm[1]}, b, false)
	}
	// S3e: one symbol of every version under the scheduler (default + reversed/rotated orders): every
	// version-dependent loop must hand all its goroutines back
	for v := 1; v <= 40; v++ {
		exploreUnit(c, []string{"S3e", strconv.Itoa(v)}, 0, false)
	}
	// S4
	racePass(c)
	c.R.Bound("S1", fmt.Sprintf("2 threads x degrees {1,2,3}^2 on GF(256) and GF(16), preemption bound %d (plus four 3-thread tuples at bound 1; thorough: all 3-thread tuples at bound 2); scheduling point before every statement of reedsolomon.go", b1))
	c.R.Bound("S2", fmt.Sprintf("all unordered pairs (thorough: triples) of %v from cold package state, group-level policy, preemption bound %d", s2, b2))
	c.R.Bound("S3", "every schedule (iterative bounding continued until no alternative is cut; pruning on an exact global state key: per-thread operation/value histories + channel and lock states): iterateModules on 9x9, 13x13 and the version-1 function-pattern matrix; encodeAlphaNumeric on all words <= 3 over {A,Z,:,a,é}; splitToBlocks(IterateBytes) for v1-L, v3-Q, v5-Q; eight whole qr.Encode calls (Numeric, AlphaNumeric, Unicode, Auto, two error-returning, two that fill version 1-L to within 3 bits of capacity; quick tier: Numeric, Auto and the 41-digit capacity call with all non-preemptive schedules, preemption bound 0, plus the two error-returning calls with every schedule; the 25-character alphanumeric capacity call is left to S3e, which runs an alphanumeric capacity call of every version)")
	c.R.Bound("S3e", "one whole qr.Encode per version 1..40 under the scheduler: default schedule and three probe schedules each (no branching)")
	c.R.Bound("S4", "free-running -race pass: {mixed, qr, rs} x goroutines {2,8,64}, {same: every operation of the alphabet in 2 or 8 goroutines at once}, {color: ten families x plain and three colour schemes on contents of equal symbol size}, {sharedsrc: one fresh barcode per family scaled to four sizes and read by different goroutines at once} and {qrall: one symbol of each version 1..40} x GOMAXPROCS {1,2,4,16} (QR modes also 3,5,6,7), each in a fresh process; observations are also compared with a GOMAXPROCS=1 baseline process (detector, not enumeration)")
	c.R.Sample(map[string]any{"harness": "S1 0 2 3", "meaning": "two threads call Encode(_,2) and Encode(_,3) on one fresh encoder; all interleavings of the statements of reedsolomon.go with <= bound preemptions; oracle: both results == reference remainder, cache == reference generators"})
	c.R.Sample(map[string]any{"harness": "S3b 0 A:a", "meaning": "every schedule of the alphanumeric producer/consumer pipeline on an input with an invalid third character; oracle: same result as alone, no goroutine left parked"})
	_ = time.Now
	_ = barcode.TypeQR
}

func init() {
	Evaluators["sched"] = evalSched
	Evaluators["race"] = evalRace
	register(&Check{ID: "C16", Engine: "S", Body: c16Body,
		Rule: "stateless schedule exploration of the instrumented real code under a controlled cooperative scheduler with iterative preemption bounding (DFS over choice sequences; scheduling points at go, channel send/receive/close, mutex operations and before every statement of files that use package sync). Harnesses: S1 shared generator cache (thread-level), S2 pairs/triples of top-level calls on cold package state (group-level reduction with dynamically checked premise), S3 intra-call goroutine pipelines (all schedules or bounded). Oracle on every complete schedule: no panic, no deadlock, no goroutine left parked, every call's observation equals its sequential/fresh-process observation, caches equal reference generators. A state is a distinct end state; transitions are executed scheduling points. S4 is a separate free-running -race pass (detector only).",
		Assumptions: []string{
			"preemption bounds as recorded in coverage.bounds; executions run to completion",
			"unsynchronised accesses outside the instrumented statements are invisible to the cooperative scheduler and covered only by the free-running -race pass (S4), which samples schedules; weak memory orderings are not modelled",
			"unbuffered channels are modelled as rendezvous; buffered channels, select, and sync primitives other than Mutex/RWMutex/WaitGroup/Once/Pool/Map/Cond make the instrumenter fail loudly (exit 2)",
		}})
}

// RaceOp is an operation of the free-running pass.
type RaceOp struct {
	Name string
	Run  func() string
}

// RaceOps returns the operation mix of a mode of cmd/racepass.
func RaceOps(mode string) []RaceOp {
	var out []RaceOp
	switch mode {
	case "rs":
		f := knownFields[0]
		enc := utils.NewReedSolomonEncoder(realField(f))
		for _, d := range []int{30, 7, 13, 22, 2, 28, 17, 10} {
			d := d
			out = append(out, RaceOp{fmt.Sprintf("rs.Encode(%d)", d), func() string { return fmt.Sprint(enc.Encode(rsData("count", f, d), d)) }})
		}
	case "sharedsrc":
		// one freshly encoded barcode per family (nobody has read a pixel yet), scaled to several sizes and
		// read pixel by pixel by different goroutines at the same time: Scale may be called concurrently,
		// also on one source
		for _, src := range []call{{"ean", []byte("1234567"), nil}, {"c128", []byte("Ab1234"), []int{1}}, {"c39", []byte("CODE 39"), []int{1, 0}},
			{"codabar", []byte("A123B"), nil}, {"qr", []byte("SHARED SOURCE"), []int{1, 0}}, {"dm", []byte("shared source"), nil},
			{"az", []byte("shared source"), []int{33, 0}}, {"pdf", []byte("shared source"), []int{1}}} {
			bc, err := src.run()
			if err != nil || bc == nil {
				continue
			}
			b := bc.Bounds()
			for _, d := range [][2]int{{2*b.Dx() + 3, 2*b.Dy() + 11}, {3 * b.Dx(), 3*b.Dy() + 4}, {b.Dx(), b.Dy() + 30}, {4*b.Dx() + 1, 2*b.Dy() + 60}} {
				d := d
				out = append(out, RaceOp{fmt.Sprintf("Scale(%s,%d,%d)", src.pretty(), d[0], d[1]), func() string { return observe(barcode.Scale(bc, d[0], d[1])) }})
			}
			out = append(out, RaceOp{"read " + src.pretty(), func() string { return observe(bc, nil) }})
		}
	case "color":
		// every family through its WithColor entry point under three schemes and plain, contents that give
		// the same symbol size: a call must come back in its own colours whatever the others asked for
		for fi, fam := range []string{"qr", "dm", "az", "pdf", "c128", "ean", "c39", "c93", "codabar", "tof"} {
			content := [][2]string{{"HELLO WORLD", "COLOUR ME"}, {"A1B2", "C3D4"}, {"Hello", "World"}, {"abc", "abd"}, {"Ab1", "Ab2"}, {"1234567", "7654321"}, {"CODE 39", "CODE 93"}, {"CODE 39", "CODE 93"}, {"A12B", "C34D"}, {"1234", "5678"}}[fi]
			p := [][]int{{0, 0}, nil, {33, 0}, {1}, {1}, nil, {1, 0}, {1, 0}, nil, {1}}[fi]
			for k, f := range []string{fam, fam + "@6", fam + "@7", fam + "@8"} {
				cl := call{f, []byte(content[k%2]), p}
				out = append(out, RaceOp{cl.pretty(), func() string { o, _ := cl.observeSafe(); return o }})
			}
		}
	case "qrall":
		// one symbol of every version 1..40 (version-dependent loops, remainder bits, block groups)
		for v := 1; v <= 40; v++ {
			v := v
			l := s3eLevel(v)
			content := string(qrFill(2, qrCap(2, l, v)))
			lv := qrLevels[l]
			out = append(out, RaceOp{fmt.Sprintf("qr v%d", v), func() string { return observe(qr.Encode(content, lv, qr.AlphaNumeric)) }})
		}
	default:
		for _, o := range pureOps() {
			o := o
			if mode == "qr" && !strings.HasPrefix(o.name, "qr:") {
				continue
			}
			out = append(out, RaceOp{o.name, func() string { return observe(o.run()) }})
		}
	}
	return out
}
