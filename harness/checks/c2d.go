package checks

import (
	"errors"
	"fmt"
	"image"
	"strings"
	"sync"

	"github.com/boombuler/barcode"
	"github.com/boombuler/barcode/aztec"
	"github.com/boombuler/barcode/datamatrix"
	"github.com/boombuler/barcode/pdf417"
	"github.com/boombuler/barcode/qr"

	"verif/core"
	"verif/oracle/aztecdec"
	"verif/oracle/dmdec"
	"verif/oracle/grid"
	"verif/oracle/pdfdec"
	"verif/oracle/qrdec"
)

// grid2D reads a 2D barcode produced by a plain Encode function (black on white).
func grid2D(c *core.Ctx, cs *core.Case, bc barcode.Barcode) (*grid.Grid, bool) {
	b := bc.Bounds()
	if b.Min != (image.Point{}) || b.Dx() < 1 || b.Dy() < 1 {
		c.Fail("C11", cs, "2D barcode has bounds %v, want origin (0,0)", b)
		return nil, false
	}
	g := grid.New(b.Dx(), b.Dy())
	for y := 0; y < g.H; y++ {
		for x := 0; x < g.W; x++ {
			switch bw(bc.At(x, y)) {
			case 1:
				g.Bits[y*g.W+x] = true
			case 0:
			default:
				c.Fail("C11", cs, "pixel (%d,%d) is %v: neither black nor white", x, y, bc.At(x, y))
				return nil, false
			}
		}
	}
	return g, true
}

func wantSize(c *core.Ctx, cs *core.Case, bc barcode.Barcode, w, h int, what string) {
	if b := bc.Bounds(); b.Dx() != w || b.Dy() != h {
		c.Fail("C11", cs, "bounds %v, the %s prescribes %dx%d", b, what, w, h)
	}
}

// ---- DataMatrix -------------------------------------------------------------------

func evalDM(c *core.Ctx, cs *core.Case) {
	s := string(cs.S)
	ref := dmdec.RefEncodeLen(cs.S)
	want := mustAccept
	idx, fits := dmdec.SizeFor(ref)
	if !fits {
		want = mustReject
	}
	bc, ok := outcome(c, cs, want, func() (barcode.Barcode, error) { return datamatrix.Encode(s) })
	if !ok {
		return
	}
	meta(c, cs, bc, "DataMatrix", 2, s)
	g, ok := grid2D(c, cs, bc)
	if !ok {
		return
	}
	res, err := dmdec.Decode(g)
	if err != nil {
		c.Fail("C02", cs, "symbol does not decode: %v", err)
		if strings.Contains(err.Error(), "syndrome") {
			c.Fail("C12", cs, "check codewords are not the ECC 200 ones of the size: %v", err)
		}
		return
	}
	if string(res.Content) != s {
		c.Fail("C02", cs, "decodes to %q, want %q", truncS(string(res.Content)), truncS(s))
	}
	if fits {
		if res.SizeIndex != idx {
			c.Fail("C13", cs, "symbol is %dx%d but the %d codewords of the ASCII encodation fit %dx%d", res.Size.Rows, res.Size.Cols, ref, dmdec.Sizes[idx].Rows, dmdec.Sizes[idx].Cols)
		}
		wantSize(c, cs, bc, dmdec.Sizes[idx].Cols, dmdec.Sizes[idx].Rows, "smallest ECC 200 size")
	}
	if len(res.ECC) != res.Size.ECCodewords {
		c.Fail("C12", cs, "%d check codewords, ECC 200 prescribes %d for %dx%d", len(res.ECC), res.Size.ECCodewords, res.Size.Rows, res.Size.Cols)
	}
	c.R.State(fmt.Sprintf("dm %dx%d regions=%d blocks=%d corners=%v fixed=%v", res.Size.Rows, res.Size.Cols, res.Size.RegionsH*res.Size.RegionsV, res.Size.Blocks, res.CornerCases, res.FixedPattern))
}

func truncS(s string) string {
	if len(s) > 80 {
		return s[:40] + "…" + s[len(s)-30:] + fmt.Sprintf("(len %d)", len(s))
	}
	return s
}

// ---- QR ------------------------------------------------------------------------------

var qrModes = []qr.Encoding{qr.Auto, qr.Numeric, qr.AlphaNumeric, qr.Unicode}
var qrLevels = []qr.ErrorCorrectionLevel{qr.L, qr.M, qr.Q, qr.H}

func inAlnum(b []byte) bool {
	for _, x := range b {
		if strings.IndexByte(qrdec.AlphanumericCharset, x) < 0 {
			return false
		}
	}
	return true
}

// qrRefMode returns the reference mode (1 numeric, 2 alphanumeric, 4 byte) in which the
// content has to fit: the requested one, or for Auto the densest single mode expressing it.
// ok=false means the requested mode cannot express the content.
func qrRefMode(content []byte, mode int) (m int, ok bool) {
	dig := allDigits(string(content))
	aln := inAlnum(content)
	switch mode {
	case 1:
		return 1, dig
	case 2:
		return 2, aln
	case 3:
		return 4, true
	}
	switch {
	case dig:
		return 1, true
	case aln:
		return 2, true
	}
	return 4, true
}

// qr: S = content, P = [level, mode]
func evalQR(c *core.Ctx, cs *core.Case) {
	s := string(cs.S)
	lvl, mode := prm(cs, 0), prm(cs, 1)
	refMode, expressible := qrRefMode(cs.S, mode)
	minV := 0
	want := mustReject
	if expressible {
		minV = qrdec.MinVersion(refMode, lvl, len(cs.S))
		if minV != 0 {
			want = mustAccept
		}
	}
	if len(cs.S) == 0 {
		want = unspecified
	}
	bc, ok := outcome(c, cs, want, func() (barcode.Barcode, error) { return qr.Encode(s, qrLevels[lvl], qrModes[mode]) })
	if !ok {
		return
	}
	meta(c, cs, bc, "QR Code", 2, s)
	g, ok := grid2D(c, cs, bc)
	if !ok {
		return
	}
	res, err := qrdec.Decode(g)
	if err != nil {
		c.Fail("C01", cs, "symbol does not decode: %v", err)
		var qe *qrdec.Error
		if errors.As(err, &qe) && (qe.Stage == "rs" || qe.Stage == "format") {
			c.Fail("C12", cs, "declared/carried error correction is inconsistent: %v", err)
		}
		return
	}
	if string(res.Content) != s {
		c.Fail("C01", cs, "decodes to %q (segments %v), want %q", truncS(string(res.Content)), res.Segments, truncS(s))
	}
	if res.Level != lvl {
		c.Fail("C12", cs, "format information declares level %s, requested %s", qrdec.LevelName(res.Level), qrdec.LevelName(lvl))
	}
	if b := bc.Bounds(); b.Dx() != 17+4*res.Version || b.Dy() != b.Dx() {
		c.Fail("C11", cs, "bounds %v for a version %d symbol", b, res.Version)
	}
	if minV != 0 && res.Version > minV {
		c.Fail("C13", cs, "version %d used, version %d holds %d characters in mode %d at level %s", res.Version, minV, len(cs.S), refMode, qrdec.LevelName(lvl))
	}
	c.R.State(fmt.Sprintf("qr v%d-%s mask%d", res.Version, qrdec.LevelName(res.Level), res.Mask))
}

// ---- Aztec ---------------------------------------------------------------------------

func azRepresentable(data []byte, pct, layers int) tri {
	if layers < -4 || layers > 32 {
		return mustReject
	}
	n := len(data)
	if n == 0 {
		return unspecified
	}
	if float64(n)*2.5 > 19968 {
		return mustReject
	}
	if layers == 0 && pct <= 100 {
		upper := true
		for _, b := range data {
			if !(b == ' ' || (b >= 'A' && b <= 'Z')) {
				upper = false
				break
			}
		}
		if upper {
			bits := 5 * n
			need := bits + bits*pct/100 + 11
			if float64(need)*1.02+64 <= 19968 {
				return mustAccept
			}
		}
		// a run of ". " pairs costs two latches and 5 bits per pair (the densest the code offers per byte)
		if n%2 == 0 && strings.Count(string(data), ". ") == n/2 {
			bits := 10 + 5*(n/2)
			need := bits + bits*pct/100 + 11
			if float64(need)*1.02+64 <= 19968 {
				return mustAccept
			}
		}
	}
	return unspecified
}

// az: S = payload, P = [minECCPercent, layers]
func evalAztec(c *core.Ctx, cs *core.Case) {
	pct, layers := prm(cs, 0), prm(cs, 1)
	data := append([]byte(nil), cs.S...)
	bc, ok := outcome(c, cs, azRepresentable(cs.S, pct, layers), func() (barcode.Barcode, error) { return aztec.Encode(data, pct, layers) })
	if string(data) != string(cs.S) {
		c.Fail("C15", cs, "Encode modified its input slice")
	}
	if !ok {
		return
	}
	meta(c, cs, bc, "Aztec", 2, string(cs.S))
	g, ok := grid2D(c, cs, bc)
	if !ok {
		return
	}
	res, err := aztecdec.Decode(g)
	if err != nil {
		c.Fail("C03", cs, "symbol does not decode: %v", err)
		if m := err.Error(); strings.Contains(m, "syndrome") || strings.Contains(m, "mode message") {
			c.Fail("C12", cs, "the check words the symbol declares are not valid Reed-Solomon check words: %v", err)
		}
		return
	}
	if string(res.Content) != string(cs.S) {
		c.Fail("C03", cs, "decodes to %q, want %q", truncS(string(res.Content)), truncS(string(cs.S)))
	}
	if layers != 0 {
		if res.Compact != (layers < 0) || res.Layers != abs(layers) {
			c.Fail("C03", cs, "layer request %d not honoured: symbol is compact=%v layers=%d", layers, res.Compact, res.Layers)
		}
	}
	side := aztecdec.SymbolSize(res.Compact, res.Layers)
	wantSize(c, cs, bc, side, side, "decoded layer count")
	dataBits := res.PayloadBits - res.PaddingBits
	if have, need := res.CheckWords*res.WordSize, dataBits*pct/100; have < need {
		c.Fail("C12", cs, "%d check words of %d bits = %d bits, less than %d%% of the %d data bits (%d)", res.CheckWords, res.WordSize, have, pct, dataBits, need)
	}
	if layers == 0 && (c.ID == "C10" || c.ID == "C03") {
		// the automatic result shows that the payload is representable in this size, so the
		// explicit request for exactly this size must be accepted as well
		req := res.Layers
		if res.Compact {
			req = -req
		}
		var b2 barcode.Barcode
		var e2 error
		if p, w := Safely(func() { b2, e2 = aztec.Encode(cs.S, pct, req) }); p {
			c.Fail("C10", cs, "explicit request %d for the automatically chosen size panicked: %s", req, w)
		} else if e2 != nil || b2 == nil {
			c.Fail("C10", cs, "automatic sizing fits the payload into compact=%v layers=%d (%d data words), but the explicit request %d for that very size is refused: %v", res.Compact, res.Layers, res.DataWords, req, e2)
		}
		c.R.Transitions++
	}
	if layers == 0 && c.ID == "C13" {
		// every explicit request for a smaller symbol must be refused
		for req := -4; req <= 32; req++ {
			if req == 0 || aztecdec.SymbolSize(req < 0, abs(req)) >= side {
				continue
			}
			var b2 barcode.Barcode
			var e2 error
			if p, _ := Safely(func() { b2, e2 = aztec.Encode(cs.S, pct, req) }); p {
				continue // C10's business
			}
			c.R.Transitions++
			if e2 == nil && b2 != nil {
				c.Fail("C13", cs, "automatic sizing chose side %d (compact=%v layers=%d) but the explicit request %d (side %d) is accepted for the same payload and percentage", side, res.Compact, res.Layers, req, aztecdec.SymbolSize(req < 0, abs(req)))
				break
			}
		}
	}
	kind := "full"
	if res.Compact {
		kind = "compact"
	}
	c.R.State(fmt.Sprintf("az %s L%d ws%d", kind, res.Layers, res.WordSize))
	for _, m := range res.Modes {
		c.R.State("az mode " + m)
	}
}

func abs(x int) int {
	if x < 0 {
		return -x
	}
	return x
}

// ---- PDF417 --------------------------------------------------------------------------

// pdfTableDigest pins the 3x929 bar-space table of the tree this harness was written for
// (it cannot be sourced independently; it is validated structurally on every run).
const pdfTableDigest = "91298e73fdabc6176df0d2d3e9c7d4343f7d1476675b97e0bd46559d585bdb53"

var (
	pdfOnce  sync.Once
	pdfTable *pdfdec.Table
	pdfErr   error
)

func getPDFTable() (*pdfdec.Table, error) {
	pdfOnce.Do(func() {
		pdfdec.MinRows = 2 // the property text quantifies over shapes 2..30; ISO's minimum of 3 rows is noted in DESIGN.md
		var pats [3][]int
		if p, w := Safely(func() { pats = pdf417.VerifCodewords() }); p {
			pdfErr = fmt.Errorf("reading the pattern table panicked: %s", w)
			return
		}
		pdfTable, pdfErr = pdfdec.NewTable(pats)
		if pdfErr == nil && pdfTable.Digest() != pdfTableDigest {
			pdfErr = fmt.Errorf("bar-space pattern table is structurally valid but differs from the pinned table (digest %s)", pdfTable.Digest())
		}
	})
	return pdfTable, pdfErr
}

func pdfRepresentable(data []byte, level int) tri {
	if level > 8 {
		return mustReject
	}
	n := len(data)
	ecc := 2 << uint(level)
	// no compaction mode packs more than 2.94 bytes into a codeword
	if float64(n)/2.94+float64(ecc)+1 > 928 {
		return mustReject
	}
	upper := true
	for _, b := range data {
		if !(b == ' ' || (b >= 'A' && b <= 'Z')) {
			upper = false
			break
		}
	}
	// upper-case text costs exactly one codeword per two characters: representable up to the largest
	// symbol the library draws (30 rows x 30 columns; ISO allows 928 codewords, so 900 certainly is)
	if upper && n > 0 && (n+1)/2+ecc+1 <= 900 {
		return mustAccept
	}
	// any byte string is expressible: in the worst case every byte costs a shift and a byte
	// codeword; well inside the capacity that must be accepted whatever the bytes are
	if n > 0 && 2*n+4+ecc <= 860 {
		return mustAccept
	}
	return unspecified
}

// pdf: S = data, P = [securityLevel]
func evalPDF(c *core.Ctx, cs *core.Case) {
	s := string(cs.S)
	level := prm(cs, 0)
	bc, ok := outcome(c, cs, pdfRepresentable(cs.S, level), func() (barcode.Barcode, error) { return pdf417.Encode(s, byte(level)) })
	if !ok {
		return
	}
	meta(c, cs, bc, "PDF417", 2, s)
	g, ok := grid2D(c, cs, bc)
	if !ok {
		return
	}
	tbl, err := getPDFTable()
	if err != nil {
		c.Fail("C04", cs, "pattern table: %v", err)
		return
	}
	res, err := tbl.Decode(g)
	if err != nil {
		c.Fail("C04", cs, "symbol does not decode: %v", err)
		var pe *pdfdec.Error
		if errors.As(err, &pe) && (pe.Kind == "indicator" || pe.Kind == "syndrome" || pe.Kind == "length") {
			c.Fail("C12", cs, "declared/carried error correction is inconsistent: %v", err)
		}
		return
	}
	if string(res.Content) != s {
		c.Fail("C04", cs, "decodes to %q (codewords %v), want %q", truncS(string(res.Content)), truncInts(res.Codewords), truncS(s))
	}
	if res.Level != level {
		c.Fail("C12", cs, "row indicators declare security level %d, requested %d", res.Level, level)
		c.Fail("C04", cs, "row indicators declare security level %d, requested %d", res.Level, level)
	}
	if res.CheckCodewords != 2<<uint(level) {
		c.Fail("C12", cs, "%d check codewords, level %d prescribes %d", res.CheckCodewords, level, 2<<uint(level))
	}
	wantSize(c, cs, bc, 17*(res.Cols+4)+1, 2*res.Rows, "decoded row/column count")
	if res.PadCodewords >= res.Cols {
		c.Fail("C13", cs, "%d padding codewords in a symbol of %d columns (a whole row of padding)", res.PadCodewords, res.Cols)
	}
	if res.Rows < 2 || res.Rows > 90 || res.Cols < 1 || res.Cols > 30 {
		c.Fail("C13", cs, "%d rows x %d columns is outside the row/column limits", res.Rows, res.Cols)
	}
	c.R.State(fmt.Sprintf("pdf %dx%d", res.Rows, res.Cols))
	c.R.State(fmt.Sprintf("pdf level %d", res.Level))
	for _, t := range res.Trace {
		c.R.State("pdf trace " + t)
	}
}

func truncInts(v []int) string {
	if len(v) > 24 {
		return fmt.Sprintf("%v…(%d)", v[:24], len(v))
	}
	return fmt.Sprint(v)
}

func init() {
	Evaluators["dm"] = evalDM
	Evaluators["qr"] = evalQR
	Evaluators["az"] = evalAztec
	Evaluators["pdf"] = evalPDF
}

func azAccepts(data []byte, pct, layers int) bool {
	ok := false
	Safely(func() {
		b, e := aztec.Encode(data, pct, layers)
		ok = e == nil && b != nil
	})
	return ok
}
