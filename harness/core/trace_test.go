package core

import (
	"reflect"
	"testing"
)

func TestEncodeDecodeCase(t *testing.T) {
	for _, cs := range []*Case{
		{Fam: "qr", S: []byte("a\nb\x00"), P: []int{1, -2}},
		{Fam: "sched", Ops: []string{"S3d", "0", "1", "x\ny"}},
		{Fam: "dm", S: []byte{}},
		{Fam: "rs", P: []int{19, 16, 1}, Ops: []string{"15:hi"}},
	} {
		b := EncodeCase(nil, cs)
		b = append(b, "stale tail"...)
		got, err := DecodeCase(b)
		if err != nil {
			t.Fatal(err)
		}
		if got.Fam != cs.Fam || !reflect.DeepEqual(got.P, cs.P) || !reflect.DeepEqual(got.Ops, cs.Ops) || string(got.S) != string(cs.S) || (got.S == nil) != (cs.S == nil) {
			t.Fatalf("got %+v want %+v", got, cs)
		}
	}
}
