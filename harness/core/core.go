// Package core is the shared runtime of the explorers: case descriptors,
// sharding, per-shard reports and their merge, evidence and replay files.
package core

import (
	"encoding/json"
	"fmt"
	"os"
	"runtime"
	"sort"
	"strconv"
	"strings"
	"sync/atomic"
	"time"
)

// Case is one explored behaviour in a form that can be written to a replay
// file and re-executed without the explorer.
type Case struct {
	Fam string   `json:"fam"`           // evaluator name
	S   []byte   `json:"s,omitempty"`   // primary string / byte input (base64 in JSON)
	Q   string   `json:"q,omitempty"`   // strconv.Quote(S), for readers only
	P   []int    `json:"p,omitempty"`   // integer parameters
	Ops []string `json:"ops,omitempty"` // operation list / schedule
}

// Key is the canonical identity of a case (known-findings are matched on it).
func (c *Case) Key() string {
	var b strings.Builder
	b.WriteString(c.Fam)
	b.WriteByte('(')
	if c.S != nil {
		b.WriteString(strconv.Quote(string(c.S)))
	}
	for i, p := range c.P {
		if i > 0 || c.S != nil {
			b.WriteByte(',')
		}
		b.WriteString(strconv.Itoa(p))
	}
	for _, o := range c.Ops {
		b.WriteByte(';')
		b.WriteString(o)
	}
	b.WriteByte(')')
	return b.String()
}

// Finding is one property violation observed on one case.
type Finding struct {
	Prop string `json:"property"`
	Case Case   `json:"case"`
	Key  string `json:"key"`
	Msg  string `json:"msg"`
	// History holds the cases the same process executed just before this one; it is only
	// replayed when the finding does not reproduce on its own (history-dependent behaviour).
	History     []Case `json:"history,omitempty"`
	NeedHistory bool   `json:"needs_history,omitempty"`
	// Position of the case in the deterministic call sequence of its shard: the last resort of
	// reproduction re-executes that whole prefix in a fresh process (NeedPrefix).
	Seq        int64  `json:"seq,omitempty"`
	Shard      int    `json:"shard,omitempty"`
	NShards    int    `json:"nshards,omitempty"`
	Tier       string `json:"tier,omitempty"`
	NeedPrefix bool   `json:"needs_prefix,omitempty"`
	// Crash: the process that was running this case died (a panic in a goroutine started by the
	// library cannot be recovered); the replay runs the case in a child process.
	Crash bool `json:"crash,omitempty"`
}

// StopSignal is panicked by Ctx.Tick when the requested prefix has been executed.
type StopSignal struct{}

const maxKeep = 40 // violations kept (written as replays) per shard and per run

// Report is what one shard (or the merged run) covered.
type Report struct {
	Evaluations int64            `json:"evaluations"`
	Accepted    int64            `json:"accepted"`
	Rejected    int64            `json:"rejected"`
	Transitions int64            `json:"transitions"`
	States      map[string]int64 `json:"states"` // distinct structure records / concrete states
	Counters    map[string]int64 `json:"counters"`
	Samples     []any            `json:"samples"`
	Findings    []Finding        `json:"findings"`
	NFindings   int64            `json:"n_findings"`
	Incomplete  []string         `json:"incomplete"` // bounds that were not completed (deadline, cap)
	Bounds      map[string]any   `json:"bounds"`
	Notes       []string         `json:"notes"`
	Hang        *Case            `json:"hang,omitempty"`
}

func NewReport() *Report {
	return &Report{States: map[string]int64{}, Counters: map[string]int64{}, Bounds: map[string]any{}}
}

func (r *Report) State(s string)          { r.States[s]++ }
func (r *Report) Count(k string, n int64) { r.Counters[k] += n }
func (r *Report) Bound(k string, v any)   { r.Bounds[k] = v }
func (r *Report) Note(f string, a ...any) { r.Notes = append(r.Notes, fmt.Sprintf(f, a...)) }
func (r *Report) NotDone(f string, a ...any) {
	msg := fmt.Sprintf(f, a...)
	for _, m := range r.Incomplete {
		if m == msg {
			return
		}
	}
	r.Incomplete = append(r.Incomplete, msg)
}

func (r *Report) Sample(v any) {
	if len(r.Samples) < 6 {
		r.Samples = append(r.Samples, v)
	}
}

func (r *Report) Add(f Finding) {
	r.NFindings++
	if len(r.Findings) < maxKeep {
		r.Findings = append(r.Findings, f)
	}
}

// Merge folds o into r.
func (r *Report) Merge(o *Report) {
	r.Evaluations += o.Evaluations
	r.Accepted += o.Accepted
	r.Rejected += o.Rejected
	r.Transitions += o.Transitions
	for k, v := range o.States {
		r.States[k] += v
	}
	for k, v := range o.Counters {
		r.Counters[k] += v
	}
	for _, s := range o.Samples {
		r.Sample(s)
	}
	r.Findings = append(r.Findings, o.Findings...)
	r.NFindings += o.NFindings
	for _, m := range o.Incomplete {
		r.NotDone("%s", m)
	}
	for k, v := range o.Bounds {
		r.Bounds[k] = v
	}
	r.Notes = append(r.Notes, o.Notes...)
	if o.Hang != nil && r.Hang == nil {
		r.Hang = o.Hang
	}
}

// Ctx is handed to a check body running in one shard.
type Ctx struct {
	ID       string
	Tier     string
	Shard    int
	NShards  int
	R        *Report
	Deadline time.Time
	unit     int64
	// watchdog
	curStart atomic.Int64 // unix nanos of the running case, 0 = idle
	cur      atomic.Pointer[Case]
	// the last few executed cases (history for findings that depend on earlier calls)
	recent []Case
	// Last is the barcode most recently accepted through an evaluator; Reuse, when set, is
	// examined by the next evaluator instead of encoding again (snapshot re-examination).
	Last  any
	Reuse any
	// ExecCount counts executed cases; with StopAfter > 0 the shard stops (panics StopSignal)
	// once that many cases ran.
	ExecCount int64
	StopAfter int64
	trace     *os.File
	traceBuf  []byte
}

// Tick is called after every executed case.
func (c *Ctx) Tick() {
	if c.StopAfter > 0 && c.ExecCount >= c.StopAfter {
		panic(StopSignal{})
	}
}

const historyLen = 8

// Remember appends cs to the short execution history of this process.
func (c *Ctx) Remember(cs *Case) {
	if len(cs.S) > 4096 {
		return // very large inputs are not worth carrying around
	}
	if len(c.recent) == historyLen {
		copy(c.recent, c.recent[1:])
		c.recent = c.recent[:historyLen-1]
	}
	c.recent = append(c.recent, *cs)
}

func (c *Ctx) Thorough() bool { return c.Tier == "thorough" }

// Mine assigns work units round-robin to shards; every shard enumerates the
// same deterministic sequence and executes the units that are its own.
func (c *Ctx) Mine() bool {
	u := c.unit
	c.unit++
	return int(u%int64(c.NShards)) == c.Shard
}

// Expired reports whether the internal deadline passed (callers finish the
// current bound, record what was not completed, and stop: never an alarm).
func (c *Ctx) Expired() bool { return !c.Deadline.IsZero() && time.Now().After(c.Deadline) }

// Begin/End bracket one case for the hang watchdog.
func (c *Ctx) Begin(cs *Case) {
	c.cur.Store(cs)
	c.curStart.Store(time.Now().UnixNano())
	if c.trace != nil {
		c.traceBuf = EncodeCase(c.traceBuf[:0], cs)
		c.trace.WriteAt(c.traceBuf, 0)
	}
}

// TraceTo makes Begin record the case that is about to run in a side file, so that the parent can
// name the call during which the process died (panics in goroutines started by the library end the
// process; nothing in-process can catch them).
func (c *Ctx) TraceTo(path string) error {
	f, err := os.Create(path)
	if err != nil {
		return err
	}
	c.trace = f
	return nil
}

// EncodeCase appends a length-prefixed flat encoding of the case (cheap: it runs before every case).
func EncodeCase(b []byte, cs *Case) []byte {
	b = append(b, "0000000000\n"...)
	b = append(b, cs.Fam...)
	b = append(b, '\n')
	for i, v := range cs.P {
		if i > 0 {
			b = append(b, ',')
		}
		b = strconv.AppendInt(b, int64(v), 10)
	}
	b = append(b, '\n')
	b = strconv.AppendInt(b, int64(len(cs.Ops)), 10)
	b = append(b, '\n')
	for _, o := range cs.Ops {
		b = strconv.AppendInt(b, int64(len(o)), 10)
		b = append(b, '\n')
		b = append(b, o...)
	}
	if cs.S == nil {
		b = append(b, 'n')
	} else {
		b = append(b, 's')
		b = append(b, cs.S...)
	}
	n := strconv.Itoa(len(b) - 11)
	copy(b[10-len(n):10], n)
	return b
}

// DecodeCase reads what EncodeCase wrote (the file may have a stale tail behind the recorded length).
func DecodeCase(b []byte) (*Case, error) {
	if len(b) < 11 {
		return nil, fmt.Errorf("short trace")
	}
	n, err := strconv.Atoi(strings.TrimLeft(string(b[:10]), "0"))
	if err != nil && string(b[:10]) != "0000000000" {
		return nil, err
	}
	b = b[11:]
	if n > len(b) {
		return nil, fmt.Errorf("truncated trace")
	}
	b = b[:n]
	line := func() string {
		i := 0
		for i < len(b) && b[i] != '\n' {
			i++
		}
		l := string(b[:i])
		if i < len(b) {
			i++
		}
		b = b[i:]
		return l
	}
	cs := &Case{Fam: line()}
	if ps := line(); ps != "" {
		for _, x := range strings.Split(ps, ",") {
			v, err := strconv.Atoi(x)
			if err != nil {
				return nil, err
			}
			cs.P = append(cs.P, v)
		}
	}
	nops, err := strconv.Atoi(line())
	if err != nil {
		return nil, err
	}
	for i := 0; i < nops; i++ {
		l, err := strconv.Atoi(line())
		if err != nil || l > len(b) {
			return nil, fmt.Errorf("bad op length")
		}
		cs.Ops = append(cs.Ops, string(b[:l]))
		b = b[l:]
	}
	if len(b) > 0 && b[0] == 's' {
		cs.S = append([]byte{}, b[1:]...)
	}
	return cs, nil
}
func (c *Ctx) End() { c.curStart.Store(0) }

// Watch starts the hang watchdog: a case that runs longer than limit makes
// the shard write its report with Hang set and exit with status 3.
func (c *Ctx) Watch(limit time.Duration, flush func()) {
	go func() {
		for {
			time.Sleep(time.Second)
			s := c.curStart.Load()
			var ms runtime.MemStats
			runtime.ReadMemStats(&ms)
			if s != 0 && ms.HeapAlloc > 6<<30 {
				// a runaway allocation inside the running case: stop before the sandbox runs out of memory
				c.R.Notes = append(c.R.Notes, fmt.Sprintf("heap reached %d MiB inside one call", ms.HeapAlloc>>20))
				c.R.Hang = c.cur.Load()
				flush()
				os.Exit(3)
			}
			if s != 0 && time.Since(time.Unix(0, s)) > limit {
				c.R.Hang = c.cur.Load()
				flush()
				os.Exit(3)
			}
		}
	}()
}

// Fail records a finding for property prop on case cs.
func (c *Ctx) Fail(prop string, cs *Case, f string, a ...any) {
	if prop != c.ID {
		// the evaluator also judges aspects that belong to other properties; those are
		// reported by the checks of those properties, here they are only counted
		c.R.Counters["findings_of_other_properties."+prop]++
		return
	}
	cc := *cs
	if cc.S != nil {
		cc.Q = strconv.Quote(string(cc.S))
	}
	f2 := Finding{Prop: prop, Case: cc, Key: cc.Key(), Msg: fmt.Sprintf(f, a...), Seq: c.ExecCount, Shard: c.Shard, NShards: c.NShards, Tier: c.Tier}
	if len(c.R.Findings) < maxKeep {
		f2.History = append([]Case(nil), c.recent...)
	}
	c.R.Add(f2)
}

// SortedKeys returns the keys of m in order.
func SortedKeys[V any](m map[string]V) []string {
	ks := make([]string, 0, len(m))
	for k := range m {
		ks = append(ks, k)
	}
	sort.Strings(ks)
	return ks
}

// ---- known findings -------------------------------------------------------

type Known struct {
	Property string `json:"property"`
	Key      string `json:"key"` // exact Case.Key() of the failing case
	What     string `json:"what"`
	Fixed    string `json:"fixed"` // "property=<id> <commit> <what failed>": suppresses nothing
}

func LoadKnown(path string) ([]Known, error) {
	b, err := os.ReadFile(path)
	if err != nil {
		if os.IsNotExist(err) {
			return nil, nil
		}
		return nil, err
	}
	var ks []Known
	if err := json.Unmarshal(b, &ks); err != nil {
		return nil, err
	}
	return ks, nil
}

// ---- evidence -------------------------------------------------------------

type Evidence struct {
	PropertyID  string         `json:"property_id"`
	Tier        string         `json:"tier"`
	Seed        int            `json:"seed"`
	Level       string         `json:"level"`
	Coverage    map[string]any `json:"coverage"`
	Assumptions []string       `json:"assumptions"`
	WallS       float64        `json:"wall_s"`
	Violations  int            `json:"violations"`
}

func WriteJSON(path string, v any) error {
	b, err := json.MarshalIndent(v, "", " ")
	if err != nil {
		return err
	}
	tmp := path + ".tmp"
	if err := os.WriteFile(tmp, append(b, '\n'), 0o644); err != nil {
		return err
	}
	return os.Rename(tmp, path)
}
