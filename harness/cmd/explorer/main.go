// Command explorer runs the exhaustive exploration that decides one property.
//
//	explorer <ID> --tier quick|thorough          parent: shards, merges, writes evidence
//	explorer <ID> --shard i --nshards n --out f  one shard
//	explorer <ID> --replay file                  re-execute one recorded violation
package main

import (
	"encoding/json"
	"flag"
	"fmt"
	"io"
	"os"
	"os/exec"
	"path/filepath"
	"runtime"
	"sort"
	"strconv"
	"strings"
	"sync"
	"time"

	"verif/checks"
	"verif/core"
)

var verifDir = func() string {
	if d := os.Getenv("VERIF_DIR"); d != "" {
		return d
	}
	return "/verif"
}()

func main() {
	if len(os.Args) < 2 {
		fmt.Fprintln(os.Stderr, "usage: explorer <ID> [--tier quick|thorough] [--replay file]")
		os.Exit(2)
	}
	id := os.Args[1]
	fs := flag.NewFlagSet("explorer", flag.ExitOnError)
	tier := fs.String("tier", "quick", "quick or thorough")
	shard := fs.Int("shard", -1, "shard index (internal)")
	nshards := fs.Int("nshards", 0, "number of shards (internal)")
	out := fs.String("out", "", "shard report file (internal)")
	replay := fs.String("replay", "", "replay file")
	oneshot := fs.String("oneshot", "", "internal: run one operation in a fresh process and print its observation")
	deadline := fs.Duration("deadline", 0, "internal deadline of the exploration (0 = tier default)")
	stopAfter := fs.Int64("stop-after", 0, "internal: stop the shard after this many executed cases")
	fs.Parse(os.Args[2:])
	if v := os.Getenv("VERIF_TIER"); v != "" && !flagSet(fs, "tier") {
		*tier = v
	}

	if *oneshot != "" {
		checks.Oneshot(*oneshot)
		return
	}
	ck, ok := checks.Registry[id]
	if !ok {
		fmt.Fprintf(os.Stderr, "unknown property %q\n", id)
		os.Exit(2)
	}
	if *replay != "" {
		os.Exit(doReplay(ck, *replay))
	}
	if *shard >= 0 {
		runShard(ck, *tier, *shard, *nshards, *out, *deadline, *stopAfter)
		return
	}
	os.Exit(parent(ck, *tier, *deadline))
}

func flagSet(fs *flag.FlagSet, name string) bool {
	set := false
	fs.Visit(func(f *flag.Flag) {
		if f.Name == name {
			set = true
		}
	})
	return set
}

func tierDeadline(tier string, d time.Duration) time.Duration {
	if d != 0 {
		return d
	}
	if tier == "thorough" {
		return 3 * time.Hour
	}
	return 20 * time.Minute
}

func runShard(ck *checks.Check, tier string, shard, n int, out string, dl time.Duration, stopAfter int64) {
	ctx := &core.Ctx{ID: ck.ID, Tier: tier, Shard: shard, NShards: n, R: core.NewReport(), StopAfter: stopAfter}
	ctx.Deadline = time.Now().Add(tierDeadline(tier, dl))
	var once sync.Once
	flush := func() {
		once.Do(func() {
			if err := core.WriteJSON(out, ctx.R); err != nil {
				fmt.Fprintln(os.Stderr, "shard: cannot write report:", err)
				os.Exit(2)
			}
		})
	}
	ctx.Watch(checks.HangLimit, flush)
	if out != "" {
		ctx.TraceTo(out + ".cur") // names the running call if the process dies (see parent)
	}
	func() {
		defer func() {
			if r := recover(); r != nil {
				if _, stop := r.(core.StopSignal); !stop {
					panic(r)
				}
			}
		}()
		ck.Body(ctx)
	}()
	flush()
}

func parent(ck *checks.Check, tier string, dl time.Duration) int {
	start := time.Now()
	seed, _ := strconv.Atoi(os.Getenv("VERIF_SEED"))
	self, err := os.Executable()
	if err != nil {
		fmt.Fprintln(os.Stderr, err)
		return 2
	}
	n := runtime.NumCPU()
	if ck.Serial {
		n = 1
	}
	tmp, err := os.MkdirTemp(filepath.Dir(self), "shards")
	if err != nil {
		fmt.Fprintln(os.Stderr, err)
		return 2
	}
	defer os.RemoveAll(tmp)

	type res struct {
		rep    *core.Report
		code   int
		err    error
		stderr string
		cur    *core.Case // the call that was running when the shard process ended
	}
	results := make([]res, n)
	var wg sync.WaitGroup
	for i := 0; i < n; i++ {
		wg.Add(1)
		go func(i int) {
			defer wg.Done()
			out := filepath.Join(tmp, fmt.Sprintf("shard%d.json", i))
			args := []string{ck.ID, "--tier", tier, "--shard", strconv.Itoa(i), "--nshards", strconv.Itoa(n), "--out", out}
			if dl != 0 {
				args = append(args, "--deadline", dl.String())
			}
			cmd := exec.Command(self, args...)
			errTail := &tailBuf{max: 1 << 16}
			cmd.Stderr = io.MultiWriter(os.Stderr, errTail)
			cmd.Stdout = os.Stderr
			cmd.Env = append(os.Environ(), "GOMAXPROCS="+gomaxprocs(ck, n))
			err := cmd.Run()
			results[i].stderr = errTail.String()
			if b, e := os.ReadFile(out + ".cur"); e == nil {
				results[i].cur, _ = core.DecodeCase(b)
			}
			code := 0
			if ee, ok := err.(*exec.ExitError); ok {
				code = ee.ExitCode()
				err = nil
			}
			results[i].code, results[i].err = code, err
			b, rerr := os.ReadFile(out)
			if rerr == nil {
				rep := core.NewReport()
				if jerr := json.Unmarshal(b, rep); jerr == nil {
					results[i].rep = rep
				}
			}
		}(i)
	}
	wg.Wait()

	total := core.NewReport()
	broken := false
	for i, r := range results {
		if r.err == nil && r.rep == nil && r.code != 0 && r.cur != nil && isCrash(r.stderr) {
			// the shard process died inside a call: a panic in a goroutine started by the library (nothing
			// in-process can recover it). The call is named by the side file written before every case.
			cs := *r.cur
			cs.Q = strconv.Quote(string(cs.S))
			msg := fmt.Sprintf("the process died while this call was running (a panic outside the calling goroutine cannot be recovered):\n%s", crashSummary(r.stderr))
			if crashIsViolation(ck.ID) {
				total.Add(core.Finding{Prop: ck.ID, Case: cs, Key: cs.Key(), Msg: msg, Crash: true})
				total.NotDone("shard %d of %d ended in a crashed call (%s); the rest of its share was not executed", i, n, cs.Key())
				continue
			}
			fmt.Fprintf(os.Stderr, "CHECK-BROKEN: the process died during %s (crashes and panics are decided by C10/C16/C18):\n%s\n", cs.Key(), crashSummary(r.stderr))
			return 2
		}
		if r.err != nil || r.rep == nil || (r.code != 0 && r.code != 3) {
			fmt.Fprintf(os.Stderr, "CHECK-BROKEN shard %d: exit=%d err=%v report=%v\n", i, r.code, r.err, r.rep != nil)
			broken = true
			continue
		}
		total.Merge(r.rep)
	}
	if broken {
		return 2
	}

	// A call that does not return violates the termination clause of C10 (encoders), the deadlock
	// clause of C16, and the properties of the utilities (C09 Scale, C17, C18) that no other
	// property covers; for the remaining properties the check cannot decide (C10 does).
	if total.Hang != nil {
		if ck.ID == "C10" || ck.ID == "C16" || ck.ID == "C09" || ck.ID == "C17" || ck.ID == "C18" {
			h := *total.Hang
			h.Q = strconv.Quote(string(h.S))
			total.Add(core.Finding{Prop: ck.ID, Case: h, Key: h.Key(), Msg: fmt.Sprintf("call did not return within %v (or its heap grew beyond 6 GiB): %v", checks.HangLimit, total.Notes)})
		} else {
			fmt.Fprintf(os.Stderr, "CHECK-BROKEN: case %s did not return within %v (termination is decided by C10)\n", total.Hang.Key(), checks.HangLimit)
			return 2
		}
	}

	// Keep only findings of this property, simplest first.
	var mine []core.Finding
	for _, f := range total.Findings {
		if f.Prop == ck.ID {
			mine = append(mine, f)
		}
	}
	sort.SliceStable(mine, func(i, j int) bool {
		// findings of the free-running race pass last: the enumerated ones replay deterministically
		if ri, rj := mine[i].Case.Fam == "race", mine[j].Case.Fam == "race"; ri != rj {
			return rj
		}
		if len(mine[i].Key) != len(mine[j].Key) {
			return len(mine[i].Key) < len(mine[j].Key)
		}
		return mine[i].Key < mine[j].Key
	})

	known, err := core.LoadKnown(filepath.Join(verifDir, "known_findings.json"))
	if err != nil {
		fmt.Fprintln(os.Stderr, "CHECK-BROKEN: known_findings.json:", err)
		return 2
	}
	knownKeys := map[string]string{}
	for _, k := range known {
		if k.Property == ck.ID && k.Key != "" && k.Fixed == "" {
			knownKeys[k.Key] = k.What
		}
	}

	replayDir := filepath.Join(verifDir, "replays", ck.ID)
	os.RemoveAll(replayDir)
	nviol, unconfirmed, examined := 0, 0, 0
	seenKey := map[string]bool{}
	tries := map[string]int{}
	confirmStart := time.Now()
	for _, f := range mine {
		if seenKey[f.Key] || tries[f.Key] >= 4 {
			continue
		}
		if nviol > 0 && time.Since(confirmStart) > 4*time.Minute {
			fmt.Printf("  (further findings were not re-examined: %d violation(s) confirmed and four minutes spent confirming)\n", nviol)
			break
		}
		tries[f.Key]++ // the same case may have been recorded several times with different histories
		if what, ok := knownKeys[f.Key]; ok {
			fmt.Printf("KNOWN-FINDING: property=%s %s: %s\n", ck.ID, f.Key, what)
			seenKey[f.Key] = true
			continue
		}
		// re-execute 5 times, each in a fresh process, before believing it; a finding that only
		// shows after the calls that preceded it in its shard is replayed with that history
		mode := ""
		// a case of the free-running race pass is itself a freshly started process: what preceded
		// it in the shard cannot matter, so only "alone" and "k of 20" apply
		own := f.Case.Fam == "race"
		switch {
		case !own && reproduces(self, ck, &f, nil, 5) == 5:
			f.History = nil
		case own && strings.Contains(f.Msg, "DATA RACE"):
			// the detector only reports races that happened: one report is proof; say how often it shows
			k := reproduces(self, ck, &f, nil, 20)
			mode = fmt.Sprintf("data race reported by the detector; the same configuration reports it in %d of 20 further freshly started processes", k)
			f.History = nil
		case !own && len(f.History) > 0 && reproduces(self, ck, &f, f.History, 5) == 5:
			mode = fmt.Sprintf("history-dependent: reproduces only after the %d preceding calls of the same process (recorded in the replay file)", len(f.History))
			f.NeedHistory = true
		case !own && reproduces(self, ck, &f, []core.Case{f.Case, f.Case, f.Case}, 5) == 5:
			mode = "history-dependent: reproduces when the same call is repeated in one process (replay repeats it four times)"
			f.History, f.NeedHistory = []core.Case{f.Case, f.Case, f.Case}, true
		case !own && !ck.Serial && f.Seq > 0 && reproducesByPrefix(self, ck, &f):
			mode = fmt.Sprintf("history-dependent: reproduces when the %d calls that shard %d/%d executed before it are executed first (the replay re-executes that call sequence)", f.Seq-1, f.Shard, f.NShards)
			f.History, f.NeedPrefix = nil, true
		default:
			// not deterministic: the same call in a fresh process sometimes shows it
			k := reproduces(self, ck, &f, nil, 20)
			if k == 0 {
				unconfirmed++
				if d := os.Getenv("VERIF_KEEP_UNCONFIRMED"); d != "" {
					core.WriteJSON(filepath.Join(d, fmt.Sprintf("unconfirmed%03d.json", unconfirmed)), f)
				}
				if unconfirmed <= 5 {
					fmt.Fprintf(os.Stderr, "unconfirmed finding (did not reproduce in 20 fresh processes, nor after its %d preceding calls, nor repeated): %s: %s\n", len(f.History), f.Key, firstLines(f.Msg, 2))
				}
				if examined++; examined > 40 {
					break
				}
				continue
			}
			mode = fmt.Sprintf("intermittent: the same call shows it in %d of 20 freshly started processes (the library does not behave deterministically)", k)
			if k == 20 {
				mode = "reproduces in 20 of 20 freshly started processes"
			}
			f.History = nil
		}
		if mode != "" {
			f.Msg += "\n  " + mode
		}
		seenKey[f.Key] = true
		nviol++
		if nviol > 12 {
			break
		}
		os.MkdirAll(replayDir, 0o755)
		p := filepath.Join(replayDir, fmt.Sprintf("%03d.json", nviol))
		core.WriteJSON(p, f)
		fmt.Printf("VIOLATION property=%s replay=%s\n", ck.ID, p)
		fmt.Printf("  case: %s\n  what: %s\n", f.Key, firstLines(f.Msg, 6))
	}
	if nviol == 0 && unconfirmed > 0 {
		fmt.Fprintf(os.Stderr, "CHECK-BROKEN: %d findings were recorded but none reproduces in a fresh process\n", unconfirmed)
		return 2
	}
	if extra := int(total.NFindings) - len(total.Findings); extra > 0 {
		fmt.Printf("  (%d further findings were not kept)\n", extra)
	}

	if total.Transitions == 0 || ck.Engine == "E" {
		total.Transitions += total.Evaluations // engine E: one transition (input -> rendered symbol) per execution, plus any extra calls the evaluator made
	}
	exhaustive := len(total.Incomplete) == 0
	wall := time.Since(start).Seconds()
	// distinct_nontrivial: distinct structure records / states, measured.
	states := int64(len(total.States))
	cov := map[string]any{
		"states":                        max64(states, 1),
		"transitions":                   max64(total.Transitions, 1),
		"traces_validated_against_impl": total.Evaluations,
		"evaluations":                   total.Evaluations,
		"distinct_nontrivial":           states,
		"rule":                          ck.Rule,
		"samples":                       samplesOrPlaceholder(total),
		"exhaustive":                    exhaustive,
		"accepted":                      total.Accepted,
		"rejected":                      total.Rejected,
		"counters":                      total.Counters,
		"bounds":                        total.Bounds,
		"incomplete":                    total.Incomplete,
		"notes":                         total.Notes,
		"state_examples":                firstN(core.SortedKeys(total.States), 40),
		"shards":                        n,
		"engine":                        ck.Engine,
	}
	ev := core.Evidence{PropertyID: ck.ID, Tier: tier, Seed: seed, Level: "model_checking", Coverage: cov,
		Assumptions: ck.Assumptions, WallS: wall, Violations: nviol}
	os.MkdirAll(filepath.Join(verifDir, "evidence"), 0o755)
	if err := core.WriteJSON(filepath.Join(verifDir, "evidence", ck.ID+".json"), ev); err != nil {
		fmt.Fprintln(os.Stderr, "CHECK-BROKEN: cannot write evidence:", err)
		return 2
	}
	fmt.Printf("%s tier=%s engine=%s evaluations=%d states=%d transitions=%d accepted=%d rejected=%d exhaustive=%v violations=%d wall=%.1fs\n",
		ck.ID, tier, ck.Engine, total.Evaluations, states, total.Transitions, total.Accepted, total.Rejected, exhaustive, nviol, wall)
	for _, k := range core.SortedKeys(total.Counters) {
		fmt.Printf("  %s=%d\n", k, total.Counters[k])
	}
	for _, s := range total.Incomplete {
		fmt.Printf("  incomplete: %s\n", s)
	}
	if nviol > 0 {
		return 1
	}
	return 0
}

func gomaxprocs(ck *checks.Check, n int) string {
	if ck.Serial {
		return strconv.Itoa(runtime.NumCPU())
	}
	if ck.Engine == "S" {
		return "1" // cooperative hand-offs are fastest on one P
	}
	return "2"
}

// reproduces re-executes a finding n times, each time in a fresh process (explorer --replay),
// optionally preceded by a history, and returns how often the finding showed. It stops early
// when a run does not show it and n == 5 (the all-or-nothing modes).
func reproduces(self string, ck *checks.Check, f *core.Finding, history []core.Case, n int) int {
	g := *f
	g.History = history
	g.NeedHistory = len(history) > 0
	tmp, err := os.CreateTemp(filepath.Dir(self), "repro*.json")
	if err != nil {
		return 0
	}
	tmp.Close()
	defer os.Remove(tmp.Name())
	if core.WriteJSON(tmp.Name(), g) != nil {
		return 0
	}
	hits := 0
	if n != 5 {
		// the "k of n" trials are independent fresh processes: run them ten at a time (a trial
		// of a deadlocking call only ends at its internal timeout)
		var mu sync.Mutex
		var wg sync.WaitGroup
		sem := make(chan struct{}, 10)
		for k := 0; k < n; k++ {
			wg.Add(1)
			sem <- struct{}{}
			go func() {
				defer wg.Done()
				defer func() { <-sem }()
				cmd := exec.Command(self, ck.ID, "--replay", tmp.Name())
				cmd.Env = os.Environ()
				if ee, ok := cmd.Run().(*exec.ExitError); ok && ee.ExitCode() == 1 {
					mu.Lock()
					hits++
					mu.Unlock()
				}
			}()
		}
		wg.Wait()
		return hits
	}
	for k := 0; k < n; k++ {
		cmd := exec.Command(self, ck.ID, "--replay", tmp.Name())
		cmd.Env = os.Environ()
		err := cmd.Run()
		if ee, ok := err.(*exec.ExitError); ok && ee.ExitCode() == 1 {
			hits++
		} else if n == 5 {
			return hits
		}
	}
	return hits
}

// reproducesByPrefix re-executes, in a fresh process, the deterministic call sequence of the
// finding's shard up to and including the finding's position and looks for the same finding.
func reproducesByPrefix(self string, ck *checks.Check, f *core.Finding) bool {
	tmp, err := os.CreateTemp(filepath.Dir(self), "prefix*.json")
	if err != nil {
		return false
	}
	tmp.Close()
	defer os.Remove(tmp.Name())
	cmd := exec.Command(self, ck.ID, "--tier", f.Tier, "--shard", strconv.Itoa(f.Shard), "--nshards", strconv.Itoa(f.NShards),
		"--stop-after", strconv.FormatInt(f.Seq, 10), "--out", tmp.Name())
	cmd.Env = append(os.Environ(), "GOMAXPROCS="+gomaxprocs(ck, f.NShards))
	if err := cmd.Run(); err != nil {
		return false
	}
	b, err := os.ReadFile(tmp.Name())
	if err != nil {
		return false
	}
	rep := core.NewReport()
	if json.Unmarshal(b, rep) != nil {
		return false
	}
	for _, g := range rep.Findings {
		if g.Prop == f.Prop && g.Key == f.Key && g.Seq == f.Seq {
			return true
		}
	}
	return false
}

func doReplay(ck *checks.Check, path string) int {
	b, err := os.ReadFile(path)
	if err != nil {
		fmt.Fprintln(os.Stderr, err)
		return 2
	}
	var f core.Finding
	if err := json.Unmarshal(b, &f); err != nil {
		fmt.Fprintln(os.Stderr, err)
		return 2
	}
	if f.Crash && os.Getenv("VERIF_REPLAY_INNER") == "" {
		// the call is expected to take the process down: run it in a child and report what happened
		self, err := os.Executable()
		if err != nil {
			fmt.Fprintln(os.Stderr, err)
			return 2
		}
		cmd := exec.Command(self, ck.ID, "--replay", path)
		cmd.Env = append(os.Environ(), "VERIF_REPLAY_INNER=1")
		out, err := cmd.CombinedOutput()
		if ee, ok := err.(*exec.ExitError); ok && isCrash(string(out)) {
			_ = ee
			fmt.Printf("VIOLATION property=%s replay=%s\n  case: %s\n  what: the process died while this call was running:\n%s\n", ck.ID, path, f.Key, crashSummary(string(out)))
			return 1
		}
		os.Stdout.Write(out)
		if ee, ok := err.(*exec.ExitError); ok {
			return ee.ExitCode()
		}
		return 0
	}
	if f.NeedPrefix {
		// re-execute the call sequence of the finding's shard up to its position
		ctx := &core.Ctx{ID: ck.ID, Tier: f.Tier, Shard: f.Shard, NShards: f.NShards, R: core.NewReport(), StopAfter: f.Seq}
		func() {
			defer func() {
				if r := recover(); r != nil {
					if _, stop := r.(core.StopSignal); !stop {
						panic(r)
					}
				}
			}()
			ck.Body(ctx)
		}()
		for _, g := range ctx.R.Findings {
			if g.Prop == ck.ID && g.Key == f.Key && g.Seq == f.Seq {
				fmt.Printf("VIOLATION property=%s replay=%s\n  case: %s (call %d of shard %d/%d)\n  what: %s\n", ck.ID, path, g.Key, g.Seq, f.Shard, f.NShards, firstLines(g.Msg, 12))
				return 1
			}
		}
		fmt.Printf("replay of %s after its %d preceding calls: property %s holds on this case\n", f.Key, f.Seq-1, ck.ID)
		return 0
	}
	ctx := &core.Ctx{ID: ck.ID, Tier: "replay", Shard: 0, NShards: 1, R: core.NewReport()}
	if f.NeedHistory {
		// the replay is the whole call sequence; the violation may show on any call of it (which
		// call of a colliding pair goes wrong depends on which came first in the process)
		for i := range f.History {
			h := f.History[i]
			checks.Exec(ctx, &h)
		}
	}
	cs := f.Case
	checks.Exec(ctx, &cs)
	hit := false
	for _, g := range ctx.R.Findings {
		if g.Prop == ck.ID {
			hit = true
			fmt.Printf("VIOLATION property=%s replay=%s\n  case: %s\n  what: %s\n", ck.ID, path, g.Key, firstLines(g.Msg, 12))
		}
	}
	if hit {
		return 1
	}
	fmt.Printf("replay of %s: property %s holds on this case\n", f.Key, ck.ID)
	return 0
}

func firstLines(s string, n int) string {
	c := 0
	for i := 0; i < len(s); i++ {
		if s[i] == '\n' {
			c++
			if c == n {
				return s[:i]
			}
		}
	}
	return s
}

func firstN(s []string, n int) []string {
	if len(s) > n {
		return s[:n]
	}
	return s
}

func max64(a, b int64) int64 {
	if a > b {
		return a
	}
	return b
}

func samplesOrPlaceholder(r *core.Report) []any {
	if len(r.Samples) > 0 {
		return r.Samples
	}
	return []any{"(no sample recorded)"}
}

// tailBuf keeps the last max bytes written to it.
type tailBuf struct {
	mu  sync.Mutex
	max int
	b   []byte
}

func (t *tailBuf) Write(p []byte) (int, error) {
	t.mu.Lock()
	defer t.mu.Unlock()
	t.b = append(t.b, p...)
	if len(t.b) > 2*t.max {
		t.b = append([]byte(nil), t.b[len(t.b)-t.max:]...)
	}
	return len(p), nil
}

func (t *tailBuf) String() string {
	t.mu.Lock()
	defer t.mu.Unlock()
	return string(t.b)
}

// isCrash recognises the Go runtime's report of an unrecovered panic or fatal error.
func isCrash(stderr string) bool {
	return (strings.Contains(stderr, "\npanic: ") || strings.HasPrefix(stderr, "panic: ") || strings.Contains(stderr, "fatal error: ")) && strings.Contains(stderr, "goroutine ")
}

// crashSummary returns the panic line and the first frames of the goroutine that panicked.
func crashSummary(stderr string) string {
	i := strings.Index(stderr, "panic: ")
	if j := strings.Index(stderr, "fatal error: "); i < 0 || (j >= 0 && j < i) {
		i = j
	}
	if i < 0 {
		return firstLines(stderr, 12)
	}
	return firstLines(stderr[i:], 14)
}

// crashIsViolation: a crash violates the no-panic clauses of C10 and C16 and the properties of the
// utilities that start goroutines or that no other property covers (as for calls that do not return).
func crashIsViolation(id string) bool {
	return id == "C10" || id == "C16" || id == "C09" || id == "C17" || id == "C18"
}
