// Command instrument rewrites the concurrency constructs of the current /repo sources so
// that engine S controls them (see DESIGN.md 3.2). It writes rewritten copies of every
// non-test file that uses go statements, channel operations or package sync into -out and
// prints "<original path> <rewritten path>" lines (the overlay entries). Any construct it
// does not know makes it fail loudly, so a change to /repo cannot silently escape control.
package main

import (
	"bytes"
	"flag"
	"fmt"
	"go/ast"
	"go/format"
	"go/importer"
	"go/parser"
	"go/token"
	"go/types"
	"os"
	"path/filepath"
	"sort"
	"strconv"
	"strings"
)

func fatal(f string, a ...any) {
	fmt.Fprintf(os.Stderr, "instrument: "+f+"\n", a...)
	os.Exit(1)
}

func main() {
	repo := flag.String("repo", "/repo", "repository root")
	out := flag.String("out", "", "output directory")
	flag.Parse()
	if *out == "" {
		fatal("-out required")
	}
	os.Chdir(*repo)
	// collect packages
	pkgs := map[string][]string{}
	filepath.Walk(*repo, func(p string, info os.FileInfo, err error) error {
		if err != nil {
			return nil
		}
		if info.IsDir() && (strings.HasPrefix(info.Name(), ".") && p != *repo) {
			return filepath.SkipDir
		}
		if !info.IsDir() && strings.HasSuffix(p, ".go") && !strings.HasSuffix(p, "_test.go") && info.Name() != "zz_verif.go" {
			pkgs[filepath.Dir(p)] = append(pkgs[filepath.Dir(p)], p)
		}
		return nil
	})
	dirs := make([]string, 0, len(pkgs))
	for d := range pkgs {
		dirs = append(dirs, d)
	}
	sort.Strings(dirs)
	fset := token.NewFileSet()
	imp := importer.ForCompiler(fset, "source", nil)
	n := 0
	for _, dir := range dirs {
		var files []*ast.File
		for _, p := range pkgs[dir] {
			f, err := parser.ParseFile(fset, p, nil, 0)
			if err != nil {
				fatal("%v", err)
			}
			files = append(files, f)
		}
		needs := false
		for _, f := range files {
			if usesConcurrency(f) {
				needs = true
			}
		}
		if !needs {
			continue
		}
		info := &types.Info{Types: map[ast.Expr]types.TypeAndValue{}, Uses: map[*ast.Ident]types.Object{}, Defs: map[*ast.Ident]types.Object{}}
		conf := types.Config{Importer: imp, Error: func(err error) {}}
		conf.Check(dir, fset, files, info) // type errors in unrelated code are tolerated; missing types fail below
		for i, f := range files {
			if !usesConcurrency(f) {
				continue
			}
			rw := &rewriter{fset: fset, info: info, file: f, path: pkgs[dir][i]}
			rw.rewrite()
			var buf bytes.Buffer
			if err := format.Node(&buf, fset, f); err != nil {
				fatal("%s: %v", rw.path, err)
			}
			dst := filepath.Join(*out, fmt.Sprintf("%03d_%s", n, filepath.Base(rw.path)))
			n++
			if err := os.WriteFile(dst, buf.Bytes(), 0o644); err != nil {
				fatal("%v", err)
			}
			fmt.Printf("%s %s\n", rw.path, dst)
		}
	}
}

func usesConcurrency(f *ast.File) bool {
	for _, im := range f.Imports {
		if p, _ := strconv.Unquote(im.Path.Value); p == "sync" {
			return true
		}
	}
	found := false
	ast.Inspect(f, func(n ast.Node) bool {
		switch x := n.(type) {
		case *ast.GoStmt, *ast.SendStmt, *ast.SelectStmt, *ast.ChanType:
			found = true
		case *ast.UnaryExpr:
			if x.Op == token.ARROW {
				found = true
			}
		}
		return !found
	})
	return found
}

type rewriter struct {
	fset      *token.FileSet
	info      *types.Info
	file      *ast.File
	path      string
	usedSched bool
	stepAll   bool
}

func (r *rewriter) pos(n ast.Node) string {
	p := r.fset.Position(n.Pos())
	return fmt.Sprintf("%s:%d", filepath.Base(p.Filename), p.Line)
}

func (r *rewriter) isChan(e ast.Expr) bool {
	tv, ok := r.info.Types[e]
	if !ok || tv.Type == nil {
		fatal("%s: cannot determine the type of a range/close operand (type check failed)", r.pos(e))
	}
	_, is := tv.Type.Underlying().(*types.Chan)
	return is
}

func schedCall(fn string, args ...ast.Expr) *ast.CallExpr {
	return &ast.CallExpr{Fun: &ast.SelectorExpr{X: ast.NewIdent("vsched"), Sel: ast.NewIdent(fn)}, Args: args}
}

func (r *rewriter) rewrite() {
	f := r.file
	// package sync -> vsync (same API, scheduling points); files that import sync guard shared
	// state: they additionally get a Step before every statement
	for _, im := range f.Imports {
		p, _ := strconv.Unquote(im.Path.Value)
		switch p {
		case "sync":
			if im.Name != nil && im.Name.Name != "sync" {
				fatal("%s: renamed import of package sync is not supported", r.path)
			}
			im.Path.Value = strconv.Quote("verif/sched/vsync")
			im.Name = ast.NewIdent("sync")
			r.stepAll = true
		case "sync/atomic":
			r.stepAll = true
		}
	}
	ast.Inspect(f, func(n ast.Node) bool {
		if sel, ok := n.(*ast.SelectorExpr); ok {
			if id, ok := sel.X.(*ast.Ident); ok && id.Name == "sync" && r.stepAll {
				switch sel.Sel.Name {
				case "Mutex", "RWMutex", "WaitGroup", "Once", "Locker":
				default:
					fatal("%s: sync.%s is not modelled by engine S", r.pos(n), sel.Sel.Name)
				}
			}
		}
		return true
	})
	for _, d := range f.Decls {
		if fd, ok := d.(*ast.FuncDecl); ok && fd.Body != nil {
			r.block(fd.Body)
		}
		// function literals in package-level var initialisers
		if gd, ok := d.(*ast.GenDecl); ok {
			ast.Inspect(gd, func(n ast.Node) bool {
				if fl, ok := n.(*ast.FuncLit); ok {
					r.block(fl.Body)
					return false
				}
				return true
			})
		}
	}
	if r.usedSched {
		// add the import
		spec := &ast.ImportSpec{Name: ast.NewIdent("vsched"), Path: &ast.BasicLit{Kind: token.STRING, Value: strconv.Quote("verif/sched")}}
		f.Decls = append([]ast.Decl{&ast.GenDecl{Tok: token.IMPORT, Specs: []ast.Spec{spec}}}, f.Decls...)
		f.Imports = append(f.Imports, spec)
	}
}

func (r *rewriter) block(b *ast.BlockStmt) {
	if b == nil {
		return
	}
	b.List = r.stmts(b.List)
}

func (r *rewriter) stmts(list []ast.Stmt) []ast.Stmt {
	var out []ast.Stmt
	for _, s := range list {
		ns := r.stmt(s)
		if r.stepAll {
			r.usedSched = true
			out = append(out, &ast.ExprStmt{X: schedCall("Step", &ast.BasicLit{Kind: token.STRING, Value: strconv.Quote(r.pos(s))})})
		}
		out = append(out, ns)
	}
	return out
}

func (r *rewriter) stmt(s ast.Stmt) ast.Stmt {
	switch x := s.(type) {
	case *ast.GoStmt:
		r.usedSched = true
		var fn ast.Expr
		if fl, ok := x.Call.Fun.(*ast.FuncLit); ok && len(x.Call.Args) == 0 {
			r.block(fl.Body)
			fn = fl
		} else if len(x.Call.Args) == 0 {
			fn = r.expr(x.Call.Fun)
		} else {
			fatal("%s: go statement with arguments is not supported by the instrumenter", r.pos(s))
		}
		return &ast.ExprStmt{X: schedCall("Go", fn)}
	case *ast.SendStmt:
		r.usedSched = true
		return &ast.ExprStmt{X: schedCall("Send", r.expr(x.Chan), r.expr(x.Value))}
	case *ast.SelectStmt:
		fatal("%s: select is not modelled by engine S", r.pos(s))
	case *ast.BlockStmt:
		r.block(x)
	case *ast.IfStmt:
		if x.Init != nil {
			x.Init = r.stmt(x.Init)
		}
		x.Cond = r.expr(x.Cond)
		r.block(x.Body)
		if x.Else != nil {
			x.Else = r.stmt(x.Else)
		}
	case *ast.ForStmt:
		if x.Init != nil {
			x.Init = r.stmt(x.Init)
		}
		if x.Cond != nil {
			x.Cond = r.expr(x.Cond)
		}
		if x.Post != nil {
			x.Post = r.stmt(x.Post)
		}
		r.block(x.Body)
	case *ast.RangeStmt:
		if r.isChan(x.X) {
			r.usedSched = true
			if x.Value != nil {
				fatal("%s: range over channel with two variables", r.pos(s))
			}
			r.block(x.Body)
			// for { v, ok := Recv2(ch); if !ok { break }; body }
			key := x.Key
			tok := x.Tok
			if key == nil {
				key = ast.NewIdent("_")
				tok = token.DEFINE
			}
			okId := ast.NewIdent("vschedOK")
			if tok == token.ASSIGN {
				fatal("%s: range over channel assigning to an existing variable is not supported", r.pos(s))
			}
			chanVar := ast.NewIdent("vschedCh")
			recv := &ast.AssignStmt{Lhs: []ast.Expr{key, okId}, Tok: token.DEFINE, Rhs: []ast.Expr{schedCall("Recv2", chanVar)}}
			brk := &ast.IfStmt{Cond: &ast.UnaryExpr{Op: token.NOT, X: okId}, Body: &ast.BlockStmt{List: []ast.Stmt{&ast.BranchStmt{Tok: token.BREAK}}}}
			body := &ast.BlockStmt{List: append([]ast.Stmt{recv, brk}, x.Body.List...)}
			loop := &ast.ForStmt{Body: body}
			init := &ast.AssignStmt{Lhs: []ast.Expr{chanVar}, Tok: token.DEFINE, Rhs: []ast.Expr{r.expr(x.X)}}
			if hasLabelledBranch(x.Body) {
				fatal("%s: labelled break/continue inside a range over a channel is not supported", r.pos(s))
			}
			return &ast.BlockStmt{List: []ast.Stmt{init, loop}}
		}
		x.X = r.expr(x.X)
		r.block(x.Body)
	case *ast.SwitchStmt:
		if x.Init != nil {
			x.Init = r.stmt(x.Init)
		}
		if x.Tag != nil {
			x.Tag = r.expr(x.Tag)
		}
		for _, c := range x.Body.List {
			cc := c.(*ast.CaseClause)
			for i := range cc.List {
				cc.List[i] = r.expr(cc.List[i])
			}
			cc.Body = r.stmts(cc.Body)
		}
	case *ast.TypeSwitchStmt:
		for _, c := range x.Body.List {
			cc := c.(*ast.CaseClause)
			cc.Body = r.stmts(cc.Body)
		}
	case *ast.LabeledStmt:
		x.Stmt = r.stmt(x.Stmt)
	case *ast.ExprStmt:
		x.X = r.expr(x.X)
	case *ast.AssignStmt:
		// v, ok := <-ch
		if len(x.Lhs) == 2 && len(x.Rhs) == 1 {
			if u, ok := x.Rhs[0].(*ast.UnaryExpr); ok && u.Op == token.ARROW {
				r.usedSched = true
				x.Rhs[0] = schedCall("Recv2", r.expr(u.X))
				return x
			}
		}
		for i := range x.Lhs {
			x.Lhs[i] = r.expr(x.Lhs[i])
		}
		for i := range x.Rhs {
			x.Rhs[i] = r.expr(x.Rhs[i])
		}
	case *ast.ReturnStmt:
		for i := range x.Results {
			x.Results[i] = r.expr(x.Results[i])
		}
	case *ast.DeferStmt:
		x.Call = r.expr(x.Call).(*ast.CallExpr)
	case *ast.IncDecStmt:
		x.X = r.expr(x.X)
	case *ast.DeclStmt:
		ast.Inspect(x, func(n ast.Node) bool {
			if vs, ok := n.(*ast.ValueSpec); ok {
				for i := range vs.Values {
					vs.Values[i] = r.expr(vs.Values[i])
				}
				return false
			}
			return true
		})
	case *ast.BranchStmt, *ast.EmptyStmt:
	default:
		fatal("%s: statement %T is not handled by the instrumenter", r.pos(s), s)
	}
	return s
}

func hasLabelledBranch(b *ast.BlockStmt) bool {
	found := false
	ast.Inspect(b, func(n ast.Node) bool {
		if br, ok := n.(*ast.BranchStmt); ok && br.Label != nil {
			found = true
		}
		return true
	})
	return found
}

// expr rewrites channel receives, close() and make(chan) inside an expression tree.
func (r *rewriter) expr(e ast.Expr) ast.Expr {
	switch x := e.(type) {
	case nil:
		return nil
	case *ast.UnaryExpr:
		if x.Op == token.ARROW {
			r.usedSched = true
			return schedCall("Recv", r.expr(x.X))
		}
		x.X = r.expr(x.X)
	case *ast.CallExpr:
		if id, ok := x.Fun.(*ast.Ident); ok {
			if obj, isB := r.info.Uses[id].(*types.Builtin); isB {
				switch obj.Name() {
				case "close":
					r.usedSched = true
					return schedCall("Close", r.expr(x.Args[0]))
				case "make":
					if _, isCh := x.Args[0].(*ast.ChanType); isCh && len(x.Args) > 1 {
						fatal("%s: buffered channels are not modelled by engine S", r.pos(e))
					}
				}
			}
		}
		x.Fun = r.expr(x.Fun)
		for i := range x.Args {
			x.Args[i] = r.expr(x.Args[i])
		}
	case *ast.FuncLit:
		r.block(x.Body)
	case *ast.BinaryExpr:
		x.X, x.Y = r.expr(x.X), r.expr(x.Y)
	case *ast.ParenExpr:
		x.X = r.expr(x.X)
	case *ast.SelectorExpr:
		x.X = r.expr(x.X)
	case *ast.IndexExpr:
		x.X, x.Index = r.expr(x.X), r.expr(x.Index)
	case *ast.SliceExpr:
		x.X, x.Low, x.High, x.Max = r.expr(x.X), r.expr(x.Low), r.expr(x.High), r.expr(x.Max)
	case *ast.StarExpr:
		x.X = r.expr(x.X)
	case *ast.TypeAssertExpr:
		x.X = r.expr(x.X)
	case *ast.CompositeLit:
		for i := range x.Elts {
			x.Elts[i] = r.expr(x.Elts[i])
		}
	case *ast.KeyValueExpr:
		x.Key, x.Value = r.expr(x.Key), r.expr(x.Value)
	}
	return e
}
