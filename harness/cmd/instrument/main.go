// Command instrument rewrites the concurrency constructs of the current /repo sources so
// that engine S controls them (see DESIGN.md 3.2). It writes rewritten copies of every
// non-test file that uses go statements, channel operations or package sync into -out and
// prints "<original path> <rewritten path>" lines (the overlay entries). Any construct it
// does not know makes it fail loudly, so a change to /repo cannot silently escape control.
package main

import (
	"bytes"
	"flag"
	"fmt"
	"go/ast"
	"go/format"
	"go/importer"
	"go/parser"
	"go/token"
	"go/types"
	"os"
	"path/filepath"
	"sort"
	"strconv"
	"strings"
)

func fatal(f string, a ...any) {
	fmt.Fprintf(os.Stderr, "instrument: "+f+"\n", a...)
	os.Exit(1)
}

func main() {
	repo := flag.String("repo", "/repo", "repository root")
	out := flag.String("out", "", "output directory")
	flag.Parse()
	if *out == "" {
		fatal("-out required")
	}
	os.Chdir(*repo)
	// collect packages
	pkgs := map[string][]string{}
	filepath.Walk(*repo, func(p string, info os.FileInfo, err error) error {
		if err != nil {
			return nil
		}
		if info.IsDir() && (strings.HasPrefix(info.Name(), ".") && p != *repo) {
			return filepath.SkipDir
		}
		if !info.IsDir() && strings.HasSuffix(p, ".go") && !strings.HasSuffix(p, "_test.go") && info.Name() != "zz_verif.go" {
			pkgs[filepath.Dir(p)] = append(pkgs[filepath.Dir(p)], p)
		}
		return nil
	})
	dirs := make([]string, 0, len(pkgs))
	for d := range pkgs {
		dirs = append(dirs, d)
	}
	sort.Strings(dirs)
	fset := token.NewFileSet()
	imp := importer.ForCompiler(fset, "source", nil)
	n := 0
	// phase A: parse and type-check every package; collect the named struct types whose
	// instances are reachable from package-level variables (through pointers, fields, slices,
	// maps): methods that write fields of such a type mutate state shared by all calls
	type pkgInfo struct {
		files []*ast.File
		info  *types.Info
	}
	all := map[string]*pkgInfo{}
	sharedTypes := map[string]bool{} // "pkgpath.TypeName"
	for _, dir := range dirs {
		var files []*ast.File
		for _, p := range pkgs[dir] {
			f, err := parser.ParseFile(fset, p, nil, 0)
			if err != nil {
				fatal("%v", err)
			}
			files = append(files, f)
		}
		info := &types.Info{Types: map[ast.Expr]types.TypeAndValue{}, Uses: map[*ast.Ident]types.Object{}, Defs: map[*ast.Ident]types.Object{}}
		conf := types.Config{Importer: imp, Error: func(err error) {}}
		conf.Check(dir, fset, files, info) // type errors in unrelated code are tolerated; missing types fail below
		all[dir] = &pkgInfo{files, info}
		for _, obj := range info.Defs {
			v, ok := obj.(*types.Var)
			if !ok || v.Pkg() == nil || v.Parent() != v.Pkg().Scope() {
				continue
			}
			collectNamedStructs(v.Type(), sharedTypes, 0)
		}
	}
	for _, dir := range dirs {
		files, info := all[dir].files, all[dir].info
		written := writtenPackageVars(files, info)
		for i, f := range files {
			if !usesConcurrency(f) && !mentions(f, info, written) && !declares(f, info, written) && !writesSharedReceiver(f, info, sharedTypes) {
				continue
			}
			rw := &rewriter{fset: fset, info: info, file: f, path: pkgs[dir][i], written: written, shared: sharedTypes}
			rw.rewrite()
			var buf bytes.Buffer
			if err := format.Node(&buf, fset, f); err != nil {
				fatal("%s: %v", rw.path, err)
			}
			dst := filepath.Join(*out, fmt.Sprintf("%03d_%s", n, filepath.Base(rw.path)))
			n++
			if err := os.WriteFile(dst, buf.Bytes(), 0o644); err != nil {
				fatal("%v", err)
			}
			fmt.Printf("%s %s\n", rw.path, dst)
		}
	}
}

func usesConcurrency(f *ast.File) bool {
	for _, im := range f.Imports {
		if p, _ := strconv.Unquote(im.Path.Value); p == "sync" {
			return true
		}
	}
	found := false
	ast.Inspect(f, func(n ast.Node) bool {
		switch x := n.(type) {
		case *ast.GoStmt, *ast.SendStmt, *ast.SelectStmt, *ast.ChanType:
			found = true
		case *ast.UnaryExpr:
			if x.Op == token.ARROW {
				found = true
			}
		}
		return !found
	})
	return found
}

// writtenPackageVars returns the package-level variables that are written at run time (outside
// init and outside their declaration): assigned, incremented, appended to, index-assigned,
// sliced (arrays) or address-taken. Functions that touch such a variable share mutable state
// across calls and get a scheduling point before every statement.
func writtenPackageVars(files []*ast.File, info *types.Info) map[types.Object]bool {
	out := map[types.Object]bool{}
	pkgVar := func(e ast.Expr) types.Object {
		for {
			switch x := e.(type) {
			case *ast.IndexExpr:
				e = x.X
				continue
			case *ast.SelectorExpr:
				e = x.X
				continue
			case *ast.ParenExpr:
				e = x.X
				continue
			case *ast.StarExpr:
				e = x.X
				continue
			case *ast.Ident:
				if v, ok := info.Uses[x].(*types.Var); ok && v.Parent() != nil && v.Parent() == v.Pkg().Scope() {
					return v
				}
			}
			return nil
		}
	}
	for _, f := range files {
		for _, d := range f.Decls {
			fd, ok := d.(*ast.FuncDecl)
			if !ok || fd.Body == nil || (fd.Recv == nil && fd.Name.Name == "init") {
				continue
			}
			ast.Inspect(fd.Body, func(n ast.Node) bool {
				switch x := n.(type) {
				case *ast.AssignStmt:
					for _, l := range x.Lhs {
						if o := pkgVar(l); o != nil {
							out[o] = true
						}
					}
				case *ast.IncDecStmt:
					if o := pkgVar(x.X); o != nil {
						out[o] = true
					}
				case *ast.UnaryExpr:
					if x.Op == token.AND {
						if o := pkgVar(x.X); o != nil {
							out[o] = true
						}
					}
				case *ast.SliceExpr:
					if o := pkgVar(x.X); o != nil {
						if _, isArr := o.Type().Underlying().(*types.Array); isArr {
							out[o] = true
						}
					}
				case *ast.RangeStmt:
					if x.Tok == token.ASSIGN {
						for _, l := range []ast.Expr{x.Key, x.Value} {
							if l != nil {
								if o := pkgVar(l); o != nil {
									out[o] = true
								}
							}
						}
					}
				}
				return true
			})
		}
	}
	// package-level variables of synchronisation types are shared mutable state by construction
	for id, obj := range info.Defs {
		v, ok := obj.(*types.Var)
		if !ok || v.Parent() == nil || v.Pkg() == nil || v.Parent() != v.Pkg().Scope() {
			continue
		}
		_ = id
		if n, ok := v.Type().(*types.Named); ok && n.Obj().Pkg() != nil && n.Obj().Pkg().Path() == "sync" {
			out[v] = true
		}
	}
	return out
}

func mentionsNode(n ast.Node, info *types.Info, set map[types.Object]bool) bool {
	if len(set) == 0 || n == nil {
		return false
	}
	found := false
	ast.Inspect(n, func(m ast.Node) bool {
		if id, ok := m.(*ast.Ident); ok && set[info.Uses[id]] {
			found = true
		}
		return !found
	})
	return found
}

func declares(f *ast.File, info *types.Info, set map[types.Object]bool) bool {
	for _, d := range f.Decls {
		if gd, ok := d.(*ast.GenDecl); ok && gd.Tok == token.VAR {
			for _, sp := range gd.Specs {
				for _, n := range sp.(*ast.ValueSpec).Names {
					if set[info.Defs[n]] {
						return true
					}
				}
			}
		}
	}
	return false
}

func mentions(f *ast.File, info *types.Info, set map[types.Object]bool) bool {
	for _, d := range f.Decls {
		if fd, ok := d.(*ast.FuncDecl); ok && fd.Body != nil && mentionsNode(fd.Body, info, set) {
			return true
		}
	}
	return false
}

// collectNamedStructs records every named struct type reachable from t.
func collectNamedStructs(t types.Type, out map[string]bool, depth int) {
	if depth > 8 || t == nil {
		return
	}
	switch x := t.(type) {
	case *types.Named:
		if x.Obj().Pkg() == nil {
			return
		}
		key := x.Obj().Pkg().Name() + "." + x.Obj().Name() // package *name*: a package type-checked from its directory has a different path
		if st, ok := x.Underlying().(*types.Struct); ok {
			if out[key] {
				return
			}
			if p := x.Obj().Pkg().Path(); p == "sync" || p == "sync/atomic" {
				return
			}
			out[key] = true
			for i := 0; i < st.NumFields(); i++ {
				collectNamedStructs(st.Field(i).Type(), out, depth+1)
			}
			return
		}
		collectNamedStructs(x.Underlying(), out, depth+1)
	case *types.Pointer:
		collectNamedStructs(x.Elem(), out, depth+1)
	case *types.Slice:
		collectNamedStructs(x.Elem(), out, depth+1)
	case *types.Array:
		collectNamedStructs(x.Elem(), out, depth+1)
	case *types.Map:
		collectNamedStructs(x.Key(), out, depth+1)
		collectNamedStructs(x.Elem(), out, depth+1)
	case *types.Struct:
		for i := 0; i < x.NumFields(); i++ {
			collectNamedStructs(x.Field(i).Type(), out, depth+1)
		}
	}
}

// sharedReceiverWriter reports whether fd is a method of a shared type that assigns to a field
// (or an element reached through a field) of its receiver.
func sharedReceiverWriter(fd *ast.FuncDecl, info *types.Info, shared map[string]bool) bool {
	if fd.Recv == nil || fd.Body == nil || len(fd.Recv.List) == 0 || len(fd.Recv.List[0].Names) == 0 {
		return false
	}
	recv := info.Defs[fd.Recv.List[0].Names[0]]
	if recv == nil {
		return false
	}
	t := recv.Type()
	if p, ok := t.(*types.Pointer); ok {
		t = p.Elem()
	}
	nt, ok := t.(*types.Named)
	if !ok || nt.Obj().Pkg() == nil || !shared[nt.Obj().Pkg().Name()+"."+nt.Obj().Name()] {
		return false
	}
	rooted := func(e ast.Expr) bool {
		sawSel := false
		for {
			switch x := e.(type) {
			case *ast.SelectorExpr:
				sawSel = true
				e = x.X
			case *ast.IndexExpr:
				e = x.X
			case *ast.ParenExpr:
				e = x.X
			case *ast.StarExpr:
				e = x.X
			case *ast.Ident:
				return sawSel && info.Uses[x] == recv
			default:
				return false
			}
		}
	}
	found := false
	ast.Inspect(fd.Body, func(n ast.Node) bool {
		switch x := n.(type) {
		case *ast.AssignStmt:
			for _, l := range x.Lhs {
				if rooted(l) {
					found = true
				}
			}
		case *ast.IncDecStmt:
			if rooted(x.X) {
				found = true
			}
		}
		return !found
	})
	return found
}

func writesSharedReceiver(f *ast.File, info *types.Info, shared map[string]bool) bool {
	for _, d := range f.Decls {
		if fd, ok := d.(*ast.FuncDecl); ok && sharedReceiverWriter(fd, info, shared) {
			return true
		}
	}
	return false
}

type rewriter struct {
	shared    map[string]bool
	written   map[types.Object]bool
	fset      *token.FileSet
	info      *types.Info
	file      *ast.File
	path      string
	usedSched bool
	stepAll   bool
}

func (r *rewriter) pos(n ast.Node) string {
	p := r.fset.Position(n.Pos())
	return fmt.Sprintf("%s:%d", filepath.Base(p.Filename), p.Line)
}

func (r *rewriter) isChan(e ast.Expr) bool {
	tv, ok := r.info.Types[e]
	if !ok || tv.Type == nil {
		fatal("%s: cannot determine the type of a range/close operand (type check failed)", r.pos(e))
	}
	_, is := tv.Type.Underlying().(*types.Chan)
	return is
}

func schedCall(fn string, args ...ast.Expr) *ast.CallExpr {
	return &ast.CallExpr{Fun: &ast.SelectorExpr{X: ast.NewIdent("vsched"), Sel: ast.NewIdent(fn)}, Args: args}
}

func (r *rewriter) rewrite() {
	f := r.file
	// package sync -> vsync (same API, scheduling points); files that import sync guard shared
	// state: they additionally get a Step before every statement
	for _, im := range f.Imports {
		p, _ := strconv.Unquote(im.Path.Value)
		switch p {
		case "sync":
			if im.Name != nil && im.Name.Name != "sync" {
				fatal("%s: renamed import of package sync is not supported", r.path)
			}
			im.Path.Value = strconv.Quote("verif/sched/vsync")
			im.Name = ast.NewIdent("sync")
			r.stepAll = true
		case "sync/atomic":
			r.stepAll = true
		}
	}
	ast.Inspect(f, func(n ast.Node) bool {
		if sel, ok := n.(*ast.SelectorExpr); ok {
			if id, ok := sel.X.(*ast.Ident); ok && id.Name == "sync" && r.stepAll {
				switch sel.Sel.Name {
				case "Mutex", "RWMutex", "WaitGroup", "Once", "Locker", "Pool", "Map", "Cond", "NewCond":
				default:
					fatal("%s: sync.%s is not modelled by engine S", r.pos(n), sel.Sel.Name)
				}
			}
		}
		return true
	})
	fileStepAll := r.stepAll
	for _, d := range f.Decls {
		if fd, ok := d.(*ast.FuncDecl); ok && fd.Body != nil {
			// a function that touches run-time-written package state is preemptible at every statement
			r.stepAll = fileStepAll || (mentionsNode(fd.Body, r.info, r.written) && !(fd.Recv == nil && fd.Name.Name == "init")) || sharedReceiverWriter(fd, r.info, r.shared)
			r.block(fd.Body)
			r.stepAll = fileStepAll
		}
		// function literals in package-level var initialisers
		if gd, ok := d.(*ast.GenDecl); ok {
			ast.Inspect(gd, func(n ast.Node) bool {
				if fl, ok := n.(*ast.FuncLit); ok {
					r.block(fl.Body)
					return false
				}
				return true
			})
		}
	}
	// package-level variables written at run time are put back to their initial value before
	// every execution (every schedule starts like a fresh process)
	var resets []ast.Stmt
	for _, d := range f.Decls {
		gd, ok := d.(*ast.GenDecl)
		if !ok || gd.Tok != token.VAR {
			continue
		}
		for _, sp := range gd.Specs {
			vs := sp.(*ast.ValueSpec)
			for i, name := range vs.Names {
				if !r.written[r.info.Defs[name]] || name.Name == "_" {
					continue
				}
				switch {
				case len(vs.Values) == len(vs.Names):
					resets = append(resets, &ast.AssignStmt{Lhs: []ast.Expr{ast.NewIdent(name.Name)}, Tok: token.ASSIGN, Rhs: []ast.Expr{vs.Values[i]}})
				case len(vs.Values) == 0 && vs.Type != nil:
					zero := ast.NewIdent("vschedZero" + name.Name)
					resets = append(resets,
						&ast.DeclStmt{Decl: &ast.GenDecl{Tok: token.VAR, Specs: []ast.Spec{&ast.ValueSpec{Names: []*ast.Ident{zero}, Type: vs.Type}}}},
						&ast.AssignStmt{Lhs: []ast.Expr{ast.NewIdent(name.Name)}, Tok: token.ASSIGN, Rhs: []ast.Expr{ast.NewIdent(zero.Name)}})
				default:
					fatal("%s: cannot generate a reset for package-level variable %s (multi-value initialiser)", r.path, name.Name)
				}
			}
		}
	}
	if len(resets) > 0 {
		r.usedSched = true
		reg := &ast.ExprStmt{X: schedCall("RegisterReset", &ast.FuncLit{Type: &ast.FuncType{Params: &ast.FieldList{}}, Body: &ast.BlockStmt{List: resets}})}
		f.Decls = append(f.Decls, &ast.FuncDecl{Name: ast.NewIdent("init"), Type: &ast.FuncType{Params: &ast.FieldList{}}, Body: &ast.BlockStmt{List: []ast.Stmt{reg}}})
	}
	if r.usedSched {
		// add the import
		spec := &ast.ImportSpec{Name: ast.NewIdent("vsched"), Path: &ast.BasicLit{Kind: token.STRING, Value: strconv.Quote("verif/sched")}}
		f.Decls = append([]ast.Decl{&ast.GenDecl{Tok: token.IMPORT, Specs: []ast.Spec{spec}}}, f.Decls...)
		f.Imports = append(f.Imports, spec)
	}
}

func (r *rewriter) block(b *ast.BlockStmt) {
	if b == nil {
		return
	}
	b.List = r.stmts(b.List)
}

func (r *rewriter) stmts(list []ast.Stmt) []ast.Stmt {
	var out []ast.Stmt
	for _, s := range list {
		ns := r.stmt(s)
		if r.stepAll {
			r.usedSched = true
			out = append(out, &ast.ExprStmt{X: schedCall("Step", &ast.BasicLit{Kind: token.STRING, Value: strconv.Quote(r.pos(s))})})
		}
		out = append(out, ns)
	}
	return out
}

func (r *rewriter) stmt(s ast.Stmt) ast.Stmt {
	switch x := s.(type) {
	case *ast.GoStmt:
		r.usedSched = true
		var fn ast.Expr
		if fl, ok := x.Call.Fun.(*ast.FuncLit); ok && len(x.Call.Args) == 0 {
			r.block(fl.Body)
			fn = fl
		} else if len(x.Call.Args) == 0 {
			fn = r.expr(x.Call.Fun)
		} else {
			// go f(a, b): the arguments are evaluated now, the call happens in the new thread:
			//   { vschedA0, vschedA1 := a, b; vsched.Go(func() { f(vschedA0, vschedA1) }) }
			if fl, ok := x.Call.Fun.(*ast.FuncLit); ok {
				r.block(fl.Body)
			} else {
				x.Call.Fun = r.expr(x.Call.Fun)
			}
			var lhs, rhs, args []ast.Expr
			for i, a := range x.Call.Args {
				id := ast.NewIdent(fmt.Sprintf("vschedA%d", i))
				lhs = append(lhs, id)
				rhs = append(rhs, r.expr(a))
				args = append(args, ast.NewIdent(id.Name))
			}
			call := &ast.CallExpr{Fun: x.Call.Fun, Args: args, Ellipsis: x.Call.Ellipsis}
			body := &ast.BlockStmt{List: []ast.Stmt{&ast.ExprStmt{X: call}}}
			lit := &ast.FuncLit{Type: &ast.FuncType{Params: &ast.FieldList{}}, Body: body}
			return &ast.BlockStmt{List: []ast.Stmt{
				&ast.AssignStmt{Lhs: lhs, Tok: token.DEFINE, Rhs: rhs},
				&ast.ExprStmt{X: schedCall("Go", lit)},
			}}
		}
		return &ast.ExprStmt{X: schedCall("Go", fn)}
	case *ast.SendStmt:
		r.usedSched = true
		return &ast.ExprStmt{X: schedCall("Send", r.expr(x.Chan), r.expr(x.Value))}
	case *ast.SelectStmt:
		fatal("%s: select is not modelled by engine S", r.pos(s))
	case *ast.BlockStmt:
		r.block(x)
	case *ast.IfStmt:
		if x.Init != nil {
			x.Init = r.stmt(x.Init)
		}
		x.Cond = r.expr(x.Cond)
		r.block(x.Body)
		if x.Else != nil {
			x.Else = r.stmt(x.Else)
		}
	case *ast.ForStmt:
		if x.Init != nil {
			x.Init = r.stmt(x.Init)
		}
		if x.Cond != nil {
			x.Cond = r.expr(x.Cond)
		}
		if x.Post != nil {
			x.Post = r.stmt(x.Post)
		}
		r.block(x.Body)
	case *ast.RangeStmt:
		if r.isChan(x.X) {
			r.usedSched = true
			if x.Value != nil {
				fatal("%s: range over channel with two variables", r.pos(s))
			}
			r.block(x.Body)
			// for { v, ok := Recv2(ch); if !ok { break }; body }
			key := x.Key
			tok := x.Tok
			if key == nil {
				key = ast.NewIdent("_")
				tok = token.DEFINE
			}
			okId := ast.NewIdent("vschedOK")
			if tok == token.ASSIGN {
				fatal("%s: range over channel assigning to an existing variable is not supported", r.pos(s))
			}
			chanVar := ast.NewIdent("vschedCh")
			recv := &ast.AssignStmt{Lhs: []ast.Expr{key, okId}, Tok: token.DEFINE, Rhs: []ast.Expr{schedCall("Recv2", chanVar)}}
			brk := &ast.IfStmt{Cond: &ast.UnaryExpr{Op: token.NOT, X: okId}, Body: &ast.BlockStmt{List: []ast.Stmt{&ast.BranchStmt{Tok: token.BREAK}}}}
			body := &ast.BlockStmt{List: append([]ast.Stmt{recv, brk}, x.Body.List...)}
			loop := &ast.ForStmt{Body: body}
			init := &ast.AssignStmt{Lhs: []ast.Expr{chanVar}, Tok: token.DEFINE, Rhs: []ast.Expr{r.expr(x.X)}}
			if hasLabelledBranch(x.Body) {
				fatal("%s: labelled break/continue inside a range over a channel is not supported", r.pos(s))
			}
			return &ast.BlockStmt{List: []ast.Stmt{init, loop}}
		}
		x.X = r.expr(x.X)
		r.block(x.Body)
	case *ast.SwitchStmt:
		if x.Init != nil {
			x.Init = r.stmt(x.Init)
		}
		if x.Tag != nil {
			x.Tag = r.expr(x.Tag)
		}
		for _, c := range x.Body.List {
			cc := c.(*ast.CaseClause)
			for i := range cc.List {
				cc.List[i] = r.expr(cc.List[i])
			}
			cc.Body = r.stmts(cc.Body)
		}
	case *ast.TypeSwitchStmt:
		for _, c := range x.Body.List {
			cc := c.(*ast.CaseClause)
			cc.Body = r.stmts(cc.Body)
		}
	case *ast.LabeledStmt:
		x.Stmt = r.stmt(x.Stmt)
	case *ast.ExprStmt:
		x.X = r.expr(x.X)
	case *ast.AssignStmt:
		// v, ok := <-ch
		if len(x.Lhs) == 2 && len(x.Rhs) == 1 {
			if u, ok := x.Rhs[0].(*ast.UnaryExpr); ok && u.Op == token.ARROW {
				r.usedSched = true
				x.Rhs[0] = schedCall("Recv2", r.expr(u.X))
				return x
			}
		}
		for i := range x.Lhs {
			x.Lhs[i] = r.expr(x.Lhs[i])
		}
		for i := range x.Rhs {
			x.Rhs[i] = r.expr(x.Rhs[i])
		}
	case *ast.ReturnStmt:
		for i := range x.Results {
			x.Results[i] = r.expr(x.Results[i])
		}
	case *ast.DeferStmt:
		x.Call = r.expr(x.Call).(*ast.CallExpr)
	case *ast.IncDecStmt:
		x.X = r.expr(x.X)
	case *ast.DeclStmt:
		ast.Inspect(x, func(n ast.Node) bool {
			if vs, ok := n.(*ast.ValueSpec); ok {
				for i := range vs.Values {
					vs.Values[i] = r.expr(vs.Values[i])
				}
				return false
			}
			return true
		})
	case *ast.BranchStmt, *ast.EmptyStmt:
	default:
		fatal("%s: statement %T is not handled by the instrumenter", r.pos(s), s)
	}
	return s
}

func hasLabelledBranch(b *ast.BlockStmt) bool {
	found := false
	ast.Inspect(b, func(n ast.Node) bool {
		if br, ok := n.(*ast.BranchStmt); ok && br.Label != nil {
			found = true
		}
		return true
	})
	return found
}

// expr rewrites channel receives, close() and make(chan) inside an expression tree.
func (r *rewriter) expr(e ast.Expr) ast.Expr {
	switch x := e.(type) {
	case nil:
		return nil
	case *ast.UnaryExpr:
		if x.Op == token.ARROW {
			r.usedSched = true
			return schedCall("Recv", r.expr(x.X))
		}
		x.X = r.expr(x.X)
	case *ast.CallExpr:
		if id, ok := x.Fun.(*ast.Ident); ok {
			if obj, isB := r.info.Uses[id].(*types.Builtin); isB {
				switch obj.Name() {
				case "close":
					r.usedSched = true
					return schedCall("Close", r.expr(x.Args[0]))
				case "len":
					if tp := r.info.TypeOf(x.Args[0]); tp != nil {
						if _, isCh := tp.Underlying().(*types.Chan); isCh {
							r.usedSched = true
							return schedCall("Len", r.expr(x.Args[0]))
						}
					}
				}
			}
		}
		x.Fun = r.expr(x.Fun)
		for i := range x.Args {
			x.Args[i] = r.expr(x.Args[i])
		}
	case *ast.FuncLit:
		r.block(x.Body)
	case *ast.BinaryExpr:
		x.X, x.Y = r.expr(x.X), r.expr(x.Y)
	case *ast.ParenExpr:
		x.X = r.expr(x.X)
	case *ast.SelectorExpr:
		x.X = r.expr(x.X)
	case *ast.IndexExpr:
		x.X, x.Index = r.expr(x.X), r.expr(x.Index)
	case *ast.SliceExpr:
		x.X, x.Low, x.High, x.Max = r.expr(x.X), r.expr(x.Low), r.expr(x.High), r.expr(x.Max)
	case *ast.StarExpr:
		x.X = r.expr(x.X)
	case *ast.TypeAssertExpr:
		x.X = r.expr(x.X)
	case *ast.CompositeLit:
		for i := range x.Elts {
			x.Elts[i] = r.expr(x.Elts[i])
		}
	case *ast.KeyValueExpr:
		x.Key, x.Value = r.expr(x.Key), r.expr(x.Value)
	}
	return e
}
