// Command racepass is the free-running pass of C16 (S4): the un-instrumented library under
// the race detector, many goroutines calling encoders at once as the very first calls of the
// process. It is a detector, not an enumeration. Exit 0 ok, 1 mismatch/leak, 66 data race.
package main

import (
	"encoding/json"
	"flag"
	"fmt"
	"os"
	"runtime"
	"sync"
	"time"

	"verif/checks"
)

func main() {
	mode := flag.String("mode", "mixed", "mixed | qr | rs")
	g := flag.Int("goroutines", 8, "number of goroutines")
	writeBase := flag.String("write-baseline", "", "run every operation once, sequentially, and write name -> observation to this file")
	baseFlag := flag.String("baseline", "", "compare observations with this file (written by a GOMAXPROCS=1 run in another process)")
	limit := flag.Int("timeout", 240, "seconds after which calls that have not returned count as deadlocked")
	flag.Parse()
	if *writeBase != "" {
		m := map[string]string{}
		for _, o := range checks.RaceOps(*mode) {
			m[o.Name] = o.Run()
		}
		b, _ := json.Marshal(m)
		if err := os.WriteFile(*writeBase, b, 0o644); err != nil {
			fmt.Println(err)
			os.Exit(2)
		}
		return
	}
	var baseline map[string]string
	if *baseFlag != "" {
		b, err := os.ReadFile(*baseFlag)
		if err != nil || json.Unmarshal(b, &baseline) != nil {
			fmt.Println("cannot read baseline", *baseFlag, err)
			os.Exit(2)
		}
	}
	base := runtime.NumGoroutine()
	ops := checks.RaceOps(*mode)
	if *mode == "same" {
		// every operation runs in *g goroutines at once: contention of a call with itself
		all := ops
		ops = nil
		for _, o := range all {
			for k := 0; k < *g; k++ {
				ops = append(ops, o)
			}
		}
		*g = len(ops)
	}
	obs := make([]string, *g)
	var wg sync.WaitGroup
	start := make(chan struct{})
	for i := 0; i < *g; i++ {
		wg.Add(1)
		go func(i int) {
			defer wg.Done()
			<-start
			obs[i] = ops[i%len(ops)].Run()
		}(i)
	}
	close(start)
	done := make(chan struct{})
	go func() { wg.Wait(); close(done) }()
	select {
	case <-done:
	case <-time.After(time.Duration(*limit) * time.Second):
		fmt.Printf("calls did not return within %d seconds (deadlock?)\n", *limit)
		os.Exit(1)
	}
	// goroutines started by the library must be gone (a leaked one never exits: the grace only delays)
	for i := 0; runtime.NumGoroutine() > base; i++ {
		if i > 1000 {
			fmt.Printf("goroutine leak: %d goroutines still alive 10 s after all calls returned (baseline %d)\n", runtime.NumGoroutine(), base)
			buf := make([]byte, 1<<16)
			fmt.Printf("%s\n", buf[:runtime.Stack(buf, true)])
			os.Exit(1)
		}
		time.Sleep(10 * time.Millisecond)
	}
	// compare with sequential results
	bad := 0
	for i := 0; i < *g; i++ {
		want := ops[i%len(ops)].Run()
		if b, ok := baseline[ops[i%len(ops)].Name]; ok && want != b {
			fmt.Printf("%s: observation %s in this process (GOMAXPROCS=%d), %s alone in a process with GOMAXPROCS=1: the result depends on the number of processors\n", ops[i%len(ops)].Name, want, runtime.GOMAXPROCS(0), b)
			bad++
			continue
		}
		if obs[i] != want {
			fmt.Printf("goroutine %d (%s): concurrent observation %s, sequential %s\n", i, ops[i%len(ops)].Name, obs[i], want)
			bad++
		}
	}
	if bad > 0 {
		os.Exit(1)
	}
}
