// Package pdfdec is a strict, independent reference decoder for PDF417
// symbols (ISO/IEC 15438). It is written from the standard and is used as the
// oracle of a verification harness: it never error-corrects and it refuses
// everything the standard does not allow.
//
// The only thing it cannot know by itself is the 3 x 929 bar-space pattern
// table; the table is passed in and validated structurally by NewTable.
package pdfdec

import (
	"crypto/sha256"
	"encoding/hex"
	"fmt"
	"math/big"
	"strconv"
	"strings"

	"verif/oracle/grid"
)

// Symbol constants of ISO/IEC 15438.
const (
	StartPattern = 0x1fea8 // 81111113, 17 modules: 11111111010101000
	StopPattern  = 0x3fa29 // 711311121, 18 modules: 111111101000101001

	MaxRows      = 90
	MaxCols      = 30
	MaxCodewords = 928
	Modulus      = 929
	MaxLevel     = 8
)

// MinRows is the smallest number of rows Decode accepts. ISO/IEC 15438 says
// 3..90 rows; a caller may lower it (before starting concurrent decodes) to
// look inside non-conformant symbols.
var MinRows = 3

// LenientLeftRowIndicator, when true, skips ONLY the check of the "x" part of
// the left row indicator of rows with (row mod 3) == 0 (which must carry
// (rows-1) div 3). The row-number part (value div 30) is still checked, and so
// is every other indicator. Default false (strict). Set it before starting
// concurrent decodes.
var LenientLeftRowIndicator = false

// Kind classifies decode errors.
type Kind string

const (
	KindGeometry  Kind = "geometry"  // width/height/row-pair problems
	KindStart     Kind = "start"     // start pattern
	KindStop      Kind = "stop"      // stop pattern
	KindPattern   Kind = "pattern"   // bar-space pattern not in the cluster of its row
	KindIndicator Kind = "indicator" // row indicator inconsistent
	KindLength    Kind = "length"    // symbol length descriptor / codeword counts
	KindSyndrome  Kind = "syndrome"  // Reed-Solomon syndromes not all zero
	KindHighLevel Kind = "highlevel" // illegal codeword sequence in the data region
)

// Error is the error type returned by Decode.
type Error struct {
	Kind Kind
	Msg  string
}

func (e *Error) Error() string { return "pdfdec: " + string(e.Kind) + ": " + e.Msg }

func errf(k Kind, format string, a ...interface{}) error {
	return &Error{Kind: k, Msg: fmt.Sprintf(format, a...)}
}

// Table is the validated bar-space pattern table with its inverse maps. It is
// immutable after NewTable and safe for concurrent use.
type Table struct {
	fwd [3][929]int32
	// inv[c][(p>>1)&0x7fff] = value+1 of the 17-module pattern p in cluster
	// index c (0 when p is not a pattern of that cluster). p always has bit 16
	// set and bit 0 clear, so 15 bits identify it.
	inv    [3][1 << 15]int16
	digest string
}

// Digest returns the SHA-256 (hex) of the table serialised as decimal numbers
// joined by ',' with the three clusters joined by ';'.
func Digest(patterns [3][]int) string {
	var sb strings.Builder
	for c := 0; c < 3; c++ {
		if c > 0 {
			sb.WriteByte(';')
		}
		for i, p := range patterns[c] {
			if i > 0 {
				sb.WriteByte(',')
			}
			sb.WriteString(strconv.Itoa(p))
		}
	}
	h := sha256.Sum256([]byte(sb.String()))
	return hex.EncodeToString(h[:])
}

// Digest returns Digest() of the patterns the table was built from.
func (t *Table) Digest() string { return t.digest }

// Pattern returns the 17-module pattern of codeword value v in cluster index c
// (0,1,2 = clusters 0,3,6).
func (t *Table) Pattern(c, v int) int { return int(t.fwd[c][v]) }

// Lookup returns the codeword value of the 17-module pattern p in cluster
// index c, or -1.
func (t *Table) Lookup(c, p int) int {
	if p>>16 != 1 || p&1 != 0 {
		return -1
	}
	return int(t.inv[c][(p>>1)&0x7fff]) - 1
}

// Widths returns the 8 element widths (bar,space,bar,space,...) of a 17-module
// pattern whose first module is a bar, and ok=false if the pattern does not
// consist of exactly 4 bars and 4 spaces starting with a bar and ending with a
// space.
func Widths(p int) (w [8]int, ok bool) {
	if p < 0 || p>>16 != 1 || p&1 != 0 {
		return w, false
	}
	idx := 0
	prev := 1
	run := 0
	for bit := 16; bit >= 0; bit-- {
		b := (p >> uint(bit)) & 1
		if b == prev {
			run++
			continue
		}
		if idx >= 8 {
			return w, false
		}
		w[idx] = run
		idx++
		prev = b
		run = 1
	}
	if idx != 7 {
		return w, false
	}
	w[7] = run
	return w, true
}

// NewTable validates the pattern table structurally and builds the inverse
// maps. patterns[c][v] is the 17-module pattern (bit 16 = first module) of
// codeword value v in cluster 3*c.
func NewTable(patterns [3][]int) (*Table, error) {
	t := &Table{}
	for c := 0; c < 3; c++ {
		if len(patterns[c]) != 929 {
			return nil, fmt.Errorf("pdfdec: table: cluster %d has %d entries, want 929", 3*c, len(patterns[c]))
		}
		for v, p := range patterns[c] {
			if p <= 0 || p >= 1<<17 {
				return nil, fmt.Errorf("pdfdec: table: cluster %d value %d: pattern %#x is not a 17-module pattern", 3*c, v, p)
			}
			if p>>16 != 1 {
				return nil, fmt.Errorf("pdfdec: table: cluster %d value %d: pattern %#x does not start with a bar", 3*c, v, p)
			}
			if p&1 != 0 {
				return nil, fmt.Errorf("pdfdec: table: cluster %d value %d: pattern %#x does not end with a space", 3*c, v, p)
			}
			w, ok := Widths(p)
			if !ok {
				return nil, fmt.Errorf("pdfdec: table: cluster %d value %d: pattern %#x does not have exactly 4 bars and 4 spaces", 3*c, v, p)
			}
			sum := 0
			for _, e := range w {
				if e < 1 || e > 6 {
					return nil, fmt.Errorf("pdfdec: table: cluster %d value %d: pattern %#x has element width %d (want 1..6)", 3*c, v, p, e)
				}
				sum += e
			}
			if sum != 17 {
				return nil, fmt.Errorf("pdfdec: table: cluster %d value %d: pattern %#x is %d modules wide", 3*c, v, p, sum)
			}
			k := ((w[0]-w[2]+w[4]-w[6])%9 + 9) % 9
			if k != 3*c {
				return nil, fmt.Errorf("pdfdec: table: cluster %d value %d: pattern %#x belongs to cluster %d", 3*c, v, p, k)
			}
			ix := (p >> 1) & 0x7fff
			if old := t.inv[c][ix]; old != 0 {
				return nil, fmt.Errorf("pdfdec: table: cluster %d: values %d and %d share pattern %#x", 3*c, int(old)-1, v, p)
			}
			t.inv[c][ix] = int16(v + 1)
			t.fwd[c][v] = int32(p)
		}
	}
	t.digest = Digest(patterns)
	return t, nil
}

// Result is what Decode recovers from a symbol.
type Result struct {
	Rows, Cols       int
	Level            int   // security level recovered from the row indicators
	Codewords        []int // all Rows*Cols codewords in reading order
	LengthDescriptor int
	DataCodewords    int // LengthDescriptor - 1 - PadCodewords
	PadCodewords     int // trailing 900s of the data region
	CheckCodewords   int // 2^(Level+1)
	Content          []byte
	// Trace lists, in order, the compaction-mode and sub-mode transitions taken
	// by the high-level decoder: "900","901","902","913","924" for mode
	// codewords, "TC:A>L","TC:A>M","TC:L>M","TC:M>L","TC:M>A","TC:M>P","TC:P>A"
	// for text sub-mode latches, "ps" / "as" for shifts and "shift-dropped"
	// when a shift pending at the end of a text segment is ignored.
	Trace []string
}

// CheckCount returns the number of error correction codewords of a level.
func CheckCount(level int) int { return 2 << uint(level) }

// Syndromes returns S_j = C(3^j) mod 929 for j = 1..k, where
// C(x) = sum codewords[i] * x^(n-1-i).
func Syndromes(codewords []int, k int) []int {
	out := make([]int, k)
	syndromesInto(out, codewords)
	return out
}

// syndromesInto fills out[j-1] = C(3^j) mod 929 by Horner's rule, four
// evaluation points at a time.
func syndromesInto(out []int, cw []int) {
	k := len(out)
	a := uint32(1)
	j := 0
	for ; j+4 <= k; j += 4 {
		a0 := a * 3 % Modulus
		a1 := a0 * 3 % Modulus
		a2 := a1 * 3 % Modulus
		a3 := a2 * 3 % Modulus
		a = a3
		var s0, s1, s2, s3 uint32
		for _, c := range cw {
			cc := uint32(c)
			s0 = (s0*a0 + cc) % Modulus
			s1 = (s1*a1 + cc) % Modulus
			s2 = (s2*a2 + cc) % Modulus
			s3 = (s3*a3 + cc) % Modulus
		}
		out[j], out[j+1], out[j+2], out[j+3] = int(s0), int(s1), int(s2), int(s3)
	}
	for ; j < k; j++ {
		a = a * 3 % Modulus
		var s uint32
		for _, c := range cw {
			s = (s*a + uint32(c)) % Modulus
		}
		out[j] = int(s)
	}
}

// readBits reads n (<= 18) modules of row starting at x, MSB first.
func readBits(row []bool, x, n int) int {
	v := 0
	for _, b := range row[x : x+n] {
		v <<= 1
		if b {
			v |= 1
		}
	}
	return v
}

// LeftIndicator returns the value the left row indicator of row i (0-based)
// must carry in a symbol of r rows, c columns and security level s.
func LeftIndicator(i, r, c, s int) int {
	switch i % 3 {
	case 0:
		return 30*(i/3) + (r-1)/3
	case 1:
		return 30*(i/3) + 3*s + (r-1)%3
	default:
		return 30*(i/3) + c - 1
	}
}

// RightIndicator is the right-hand counterpart of LeftIndicator.
func RightIndicator(i, r, c, s int) int {
	switch i % 3 {
	case 0:
		return 30*(i/3) + c - 1
	case 1:
		return 30*(i/3) + (r-1)/3
	default:
		return 30*(i/3) + 3*s + (r-1)%3
	}
}

// Decode reads a symbol drawn without quiet zone, one grid column per module
// and two identical grid rows per symbol row.
func (t *Table) Decode(g *grid.Grid) (*Result, error) {
	if g == nil {
		return nil, errf(KindGeometry, "nil grid")
	}
	W, H := g.W, g.H
	if W <= 0 || H <= 0 || len(g.Bits) != W*H {
		return nil, errf(KindGeometry, "inconsistent grid %dx%d with %d modules", W, H, len(g.Bits))
	}
	if (W-1)%17 != 0 || (W-1)/17 < 5 {
		return nil, errf(KindGeometry, "width %d is not 17*(c+4)+1 with c >= 1", W)
	}
	cols := (W-1)/17 - 4
	if cols > MaxCols {
		return nil, errf(KindGeometry, "%d data columns (max %d)", cols, MaxCols)
	}
	if H%2 != 0 {
		return nil, errf(KindGeometry, "height %d is odd (2 pixel rows per symbol row expected)", H)
	}
	rows := H / 2
	if rows < MinRows {
		return nil, errf(KindGeometry, "%d rows (min %d)", rows, MinRows)
	}
	if rows > MaxRows {
		return nil, errf(KindGeometry, "%d rows (max %d)", rows, MaxRows)
	}
	n := rows * cols
	if n > MaxCodewords {
		return nil, errf(KindLength, "%d rows x %d columns = %d codewords (max %d)", rows, cols, n, MaxCodewords)
	}

	res := &Result{Rows: rows, Cols: cols, Level: -1}
	cws := make([]int, n)
	res.Codewords = cws
	var li, ri [MaxRows]int

	stopX := W - 18
	for i := 0; i < rows; i++ {
		a := g.Bits[2*i*W : (2*i+1)*W]
		b := g.Bits[(2*i+1)*W : (2*i+2)*W]
		for x := range a {
			if a[x] != b[x] {
				return nil, errf(KindGeometry, "row %d: the two pixel rows differ at x=%d", i, x)
			}
		}
		if p := readBits(a, 0, 17); p != StartPattern {
			return nil, errf(KindStart, "row %d: start pattern is %017b", i, p)
		}
		if p := readBits(a, stopX, 18); p != StopPattern {
			return nil, errf(KindStop, "row %d: stop pattern is %018b", i, p)
		}
		inv := &t.inv[i%3]
		x := 17
		for j := 0; j < cols+2; j++ {
			p := readBits(a, x, 17)
			v := -1
			if p>>16 == 1 && p&1 == 0 {
				v = int(inv[(p>>1)&0x7fff]) - 1
			}
			if v < 0 {
				return nil, errf(KindPattern, "row %d, codeword position %d (x=%d): pattern %017b is not a cluster %d pattern", i, j, x, p, 3*(i%3))
			}
			switch {
			case j == 0:
				li[i] = v
			case j == cols+1:
				ri[i] = v
			default:
				cws[i*cols+j-1] = v
			}
			x += 17
		}
	}

	// Security level: carried by the left indicator of rows 1,4,7,... and the
	// right indicator of rows 2,5,8,...
	level := -1
	switch {
	case rows >= 2:
		y := li[1] - (rows-1)%3
		if y < 0 || y%3 != 0 || y/3 > MaxLevel {
			return nil, errf(KindIndicator, "row 1: left indicator %d is not 3*s + %d with s in 0..8", li[1], (rows-1)%3)
		}
		level = y / 3
	default:
		return nil, errf(KindIndicator, "a %d-row symbol does not carry its security level", rows)
	}
	for i := 0; i < rows; i++ {
		wl := LeftIndicator(i, rows, cols, level)
		wr := RightIndicator(i, rows, cols, level)
		if li[i] != wl {
			if LenientLeftRowIndicator && i%3 == 0 && li[i]/30 == i/3 {
				// tolerated: only the (rows-1) div 3 part is wrong
			} else {
				return nil, errf(KindIndicator, "row %d: left indicator is %d, want %d (rows=%d cols=%d level=%d)", i, li[i], wl, rows, cols, level)
			}
		}
		if ri[i] != wr {
			return nil, errf(KindIndicator, "row %d: right indicator is %d, want %d (rows=%d cols=%d level=%d)", i, ri[i], wr, rows, cols, level)
		}
	}
	res.Level = level
	k := CheckCount(level)
	res.CheckCodewords = k
	if n-k < 1 {
		return nil, errf(KindLength, "%d codewords cannot hold %d check codewords and a length descriptor", n, k)
	}
	sld := cws[0]
	res.LengthDescriptor = sld
	if sld != n-k {
		return nil, errf(KindLength, "symbol length descriptor is %d, want %d (= %d codewords - %d check codewords)", sld, n-k, n, k)
	}

	// Reed-Solomon: every syndrome must be zero, no correction is attempted.
	var synBuf [512]int
	syn := synBuf[:k]
	syndromesInto(syn, cws)
	for j, s := range syn {
		if s != 0 {
			return nil, errf(KindSyndrome, "syndrome S_%d = %d (of %d), want 0", j+1, s, k)
		}
	}

	// Padding.
	pads := 0
	for sld-1-pads >= 1 && cws[sld-1-pads] == 900 {
		pads++
	}
	res.PadCodewords = pads
	res.DataCodewords = sld - 1 - pads

	if err := decodeHighLevel(cws[1:sld-pads], res); err != nil {
		return nil, err
	}
	return res, nil
}

// DecodeCodewords runs only the high-level decoder on a data region (the
// codewords after the symbol length descriptor, without check codewords).
// Trailing 900s are treated as pads exactly as Decode does.
func DecodeCodewords(data []int) (*Result, error) {
	res := &Result{Level: -1, LengthDescriptor: len(data) + 1}
	pads := 0
	for pads < len(data) && data[len(data)-1-pads] == 900 {
		pads++
	}
	res.PadCodewords = pads
	res.DataCodewords = len(data) - pads
	for _, c := range data {
		if c < 0 || c > 928 {
			return nil, errf(KindHighLevel, "codeword %d out of range", c)
		}
	}
	if err := decodeHighLevel(data[:len(data)-pads], res); err != nil {
		return nil, err
	}
	return res, nil
}

// Text compaction sub-modes and shifts.
const (
	subA = iota
	subL
	subM
	subP
)

const (
	shNone = iota
	shPS
	shAS
)

const (
	modeText = iota
	modeByte
	modeNum
)

const mixedChars = "0123456789&\r\t,:#-.$/+%*=^"        // values 0..24
const punctChars = ";<>@[\\]_`~!\r\t,:\n-.$/\"|*()?{}'" // values 0..28

type hlState struct {
	out   []byte
	trace []string
	sub   int
	shift int
}

func (d *hlState) textValue(v, pos int) error {
	cur := d.sub
	shifted := d.shift != shNone
	switch d.shift {
	case shPS:
		cur = subP
	case shAS:
		cur = subA
	}
	d.shift = shNone
	switch cur {
	case subA:
		switch {
		case v < 26:
			d.out = append(d.out, byte('A'+v))
		case v == 26:
			d.out = append(d.out, ' ')
		case shifted:
			return errf(KindHighLevel, "data codeword %d: value %d (latch/shift) directly after an 'as' shift", pos, v)
		case v == 27:
			d.sub = subL
			d.trace = append(d.trace, "TC:A>L")
		case v == 28:
			d.sub = subM
			d.trace = append(d.trace, "TC:A>M")
		default:
			d.shift = shPS
			d.trace = append(d.trace, "ps")
		}
	case subL:
		switch {
		case v < 26:
			d.out = append(d.out, byte('a'+v))
		case v == 26:
			d.out = append(d.out, ' ')
		case v == 27:
			d.shift = shAS
			d.trace = append(d.trace, "as")
		case v == 28:
			d.sub = subM
			d.trace = append(d.trace, "TC:L>M")
		default:
			d.shift = shPS
			d.trace = append(d.trace, "ps")
		}
	case subM:
		switch {
		case v < 25:
			d.out = append(d.out, mixedChars[v])
		case v == 25:
			d.sub = subP
			d.trace = append(d.trace, "TC:M>P")
		case v == 26:
			d.out = append(d.out, ' ')
		case v == 27:
			d.sub = subL
			d.trace = append(d.trace, "TC:M>L")
		case v == 28:
			d.sub = subA
			d.trace = append(d.trace, "TC:M>A")
		default:
			d.shift = shPS
			d.trace = append(d.trace, "ps")
		}
	default: // subP
		switch {
		case v < 29:
			d.out = append(d.out, punctChars[v])
		case shifted:
			return errf(KindHighLevel, "data codeword %d: value 29 (latch to alpha) directly after a 'ps' shift", pos)
		default:
			d.sub = subA
			d.trace = append(d.trace, "TC:P>A")
		}
	}
	return nil
}

func (d *hlState) endTextSegment() {
	if d.shift != shNone {
		d.shift = shNone
		d.trace = append(d.trace, "shift-dropped")
	}
}

var (
	big900 = big.NewInt(900)
)

// decodeHighLevel interprets data (no length descriptor, no pads, no check
// codewords), starting in Text Compaction mode, Alpha sub-mode.
func decodeHighLevel(data []int, res *Result) error {
	d := hlState{
		out:   make([]byte, 0, 3*len(data)+8),
		trace: make([]string, 0, 8),
	}
	mode := modeText
	i := 0
	for i < len(data) {
		c := data[i]
		if c < 900 {
			if mode != modeText {
				// cannot happen: byte and numeric segments consume every
				// codeword < 900 that follows their latch.
				return errf(KindHighLevel, "internal: data codeword %d outside a text segment", i+1)
			}
			if err := d.textValue(c/30, i+1); err != nil {
				return err
			}
			if err := d.textValue(c%30, i+1); err != nil {
				return err
			}
			i++
			continue
		}
		if mode == modeText {
			d.endTextSegment()
		}
		switch c {
		case 900:
			mode = modeText
			d.sub = subA
			d.trace = append(d.trace, "900")
			i++
		case 913:
			if mode != modeText {
				return errf(KindHighLevel, "data codeword %d: 913 (byte shift) outside Text Compaction mode", i+1)
			}
			if i+1 >= len(data) {
				return errf(KindHighLevel, "data codeword %d: 913 (byte shift) is the last data codeword", i+1)
			}
			b := data[i+1]
			if b > 255 {
				return errf(KindHighLevel, "data codeword %d: value %d after 913 is not a byte", i+2, b)
			}
			d.out = append(d.out, byte(b))
			d.trace = append(d.trace, "913")
			i += 2
		case 901, 924:
			mode = modeByte
			j := i + 1
			for j < len(data) && data[j] < 900 {
				j++
			}
			seg := data[i+1 : j]
			m := len(seg)
			singles := 0
			if c == 924 {
				if m%5 != 0 {
					return errf(KindHighLevel, "data codeword %d: 924 byte segment of %d codewords is not a multiple of 5", i+1, m)
				}
				d.trace = append(d.trace, "924")
			} else {
				if m > 0 {
					singles = m % 5
					if singles == 0 {
						singles = 5
					}
				}
				d.trace = append(d.trace, "901")
			}
			p := 0
			for ; p+5 <= m-singles; p += 5 {
				v := uint64(seg[p])
				v = v*900 + uint64(seg[p+1])
				v = v*900 + uint64(seg[p+2])
				v = v*900 + uint64(seg[p+3])
				v = v*900 + uint64(seg[p+4])
				if v>>48 != 0 {
					return errf(KindHighLevel, "data codewords %d..%d: byte group value %d does not fit 6 bytes", i+2+p, i+6+p, v)
				}
				d.out = append(d.out, byte(v>>40), byte(v>>32), byte(v>>24), byte(v>>16), byte(v>>8), byte(v))
			}
			for ; p < m; p++ {
				if seg[p] > 255 {
					return errf(KindHighLevel, "data codeword %d: value %d in the single-byte tail of a 901 segment is not a byte", i+2+p, seg[p])
				}
				d.out = append(d.out, byte(seg[p]))
			}
			i = j
		case 902:
			mode = modeNum
			d.trace = append(d.trace, "902")
			j := i + 1
			for j < len(data) && data[j] < 900 {
				j++
			}
			seg := data[i+1 : j]
			var v, tmp big.Int
			for p := 0; p < len(seg); p += 15 {
				q := p + 15
				if q > len(seg) {
					q = len(seg)
				}
				v.SetInt64(0)
				for _, cw := range seg[p:q] {
					v.Mul(&v, big900)
					tmp.SetInt64(int64(cw))
					v.Add(&v, &tmp)
				}
				s := v.Append(make([]byte, 0, 48), 10)
				if s[0] != '1' {
					return errf(KindHighLevel, "data codewords %d..%d: numeric group %s does not start with 1", i+2+p, i+1+q, s)
				}
				nd := len(s) - 1
				g := q - p
				if seg[p] == 0 || nd < 1 || nd/3+1 != g || (q < len(seg) && nd != 44) {
					return errf(KindHighLevel, "data codewords %d..%d: numeric group of %d codewords carries %d digits (not the encoding of ISO 15438 5.4.4)", i+2+p, i+1+q, g, nd)
				}
				d.out = append(d.out, s[1:]...)
			}
			i = j
		default:
			return errf(KindHighLevel, "data codeword %d: function codeword %d is not supported/allowed here", i+1, c)
		}
	}
	if mode == modeText {
		d.endTextSegment()
	}
	res.Content = d.out
	res.Trace = d.trace
	return nil
}
