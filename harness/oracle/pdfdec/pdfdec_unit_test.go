package pdfdec

import (
	"bytes"
	"math/big"
	"reflect"
	"strings"
	"testing"
)

// Worked examples printed in ISO/IEC 15438 (and reproduced in every PDF417
// description): they pin down the conventions of this decoder independently
// of any encoder.

// "PDF417" at security level 1: 5 453 178 121 239 | 452 327 657 619.
func TestISOExampleSyndromes(t *testing.T) {
	cw := []int{5, 453, 178, 121, 239, 452, 327, 657, 619}
	for j, s := range Syndromes(cw, 4) {
		if s != 0 {
			t.Errorf("S_%d = %d, want 0", j+1, s)
		}
	}
	r, err := DecodeCodewords(cw[1:5])
	if err != nil {
		t.Fatal(err)
	}
	if string(r.Content) != "PDF417" {
		t.Errorf("content %q", r.Content)
	}
	want := []string{"TC:A>M", "ps", "shift-dropped"}
	if !reflect.DeepEqual(r.Trace, want) {
		t.Errorf("trace %v, want %v", r.Trace, want)
	}
	cw[3]++
	z := true
	for _, s := range Syndromes(cw, 4) {
		z = z && s == 0
	}
	if z {
		t.Error("corrupted example still has zero syndromes")
	}
}

// Syndromes against a naive evaluation with explicit powers.
func TestSyndromesNaive(t *testing.T) {
	cw := make([]int, 77)
	x := 12345
	for i := range cw {
		x = (x*1103515245 + 12345) & 0x7fffffff
		cw[i] = x % 929
	}
	for _, k := range []int{1, 2, 3, 4, 5, 7, 8, 16, 33, 512} {
		got := Syndromes(cw, k)
		for j := 1; j <= k; j++ {
			a := new(big.Int).Exp(big.NewInt(3), big.NewInt(int64(j)), big.NewInt(929)).Int64()
			var s int64
			for i, c := range cw {
				p := new(big.Int).Exp(big.NewInt(a), big.NewInt(int64(len(cw)-1-i)), big.NewInt(929)).Int64()
				s = (s + int64(c)*p) % 929
			}
			if int64(got[j-1]) != s {
				t.Fatalf("k=%d S_%d = %d, want %d", k, j, got[j-1], s)
			}
		}
	}
	if CheckCount(0) != 2 || CheckCount(8) != 512 {
		t.Error("CheckCount")
	}
}

func TestISOExampleNumeric(t *testing.T) {
	// 000213298174000 -> 1 624 434 632 282 200
	r, err := DecodeCodewords([]int{902, 1, 624, 434, 632, 282, 200})
	if err != nil {
		t.Fatal(err)
	}
	if string(r.Content) != "000213298174000" {
		t.Errorf("content %q", r.Content)
	}
}

func TestISOExampleByte(t *testing.T) {
	// bytes 231 101 11 97 205 2 -> 387 700 208 213 302
	want := []byte{231, 101, 11, 97, 205, 2}
	r, err := DecodeCodewords([]int{924, 387, 700, 208, 213, 302})
	if err != nil {
		t.Fatal(err)
	}
	if !bytes.Equal(r.Content, want) {
		t.Errorf("content %v", r.Content)
	}
	// 901 with 5 codewords: five single bytes
	r, err = DecodeCodewords([]int{901, 1, 2, 3, 4, 5})
	if err != nil || !bytes.Equal(r.Content, []byte{1, 2, 3, 4, 5}) {
		t.Errorf("901 x5: %v %v", r, err)
	}
	// 901 with 6 codewords: one group + one single byte
	r, err = DecodeCodewords([]int{901, 387, 700, 208, 213, 302, 65})
	if err != nil || !bytes.Equal(r.Content, append(append([]byte{}, want...), 65)) {
		t.Errorf("901 x6: %v %v", r, err)
	}
	// 901 with 10 codewords: one group + five single bytes
	r, err = DecodeCodewords([]int{901, 387, 700, 208, 213, 302, 1, 2, 3, 4, 5})
	if err != nil || !bytes.Equal(r.Content, append(append([]byte{}, want...), 1, 2, 3, 4, 5)) {
		t.Errorf("901 x10: %v %v", r, err)
	}
}

func TestHighLevel(t *testing.T) {
	type tc struct {
		name string
		cw   []int
		want string
		err  string
	}
	v := func(h, l int) int { return 30*h + l }
	cases := []tc{
		{"alpha", []int{v(0, 1), v(2, 26)}, "ABC ", ""},
		{"lower+as", []int{v(27, 0), v(27, 1), v(2, 29)}, "aBc", ""},
		{"mixed,punct,al", []int{v(28, 1), v(25, 0), v(29, 0)}, "1;A", ""},
		{"mixed>lower, mixed>alpha", []int{v(28, 27), v(0, 28), v(28, 0)}, "aA", ""},
		{"ps in each sub-mode", []int{v(29, 0), v(27, 29), v(1, 28), v(29, 2), v(5, 5)}, ";<>55", ""},
		{"punct 29 is a latch", []int{v(28, 25), v(29, 1)}, "B", ""},
		{"ps ps", []int{v(29, 29)}, "", "after a 'ps'"},
		{"as ll", []int{v(27, 27), v(27, 0)}, "", "after an 'as'"},
		{"913 keeps sub-mode", []int{v(27, 0), 913, 200, v(1, 2)}, "a\xc8bc", ""},
		{"913 after ps pad", []int{v(0, 29), 913, 0, v(1, 2)}, "A\x00BC", ""},
		{"913 last", []int{v(0, 0), 913}, "", "last data codeword"},
		{"913 >255", []int{913, 256}, "", "not a byte"},
		{"913 in byte mode", []int{901, 65, 913, 66}, "", "outside Text"},
		{"913 in numeric mode", []int{902, 12, 913, 66}, "", "outside Text"},
		{"900 resets to alpha", []int{v(27, 0), 900, v(0, 1)}, "aAB", ""},
		{"byte then text", []int{901, 200, 900, v(0, 1)}, "\xc8AB", ""},
		{"numeric then text", []int{902, 12, 900, v(0, 1)}, "2AB", ""},
		{"924 bad length", []int{924, 1, 2, 3}, "", "multiple of 5"},
		{"901 tail >255", []int{901, 300}, "", "not a byte"},
		{"group overflow", []int{924, 899, 899, 899, 899, 899}, "", "does not fit"},
		{"numeric no leading 1", []int{902, 2}, "", "does not start with 1"},
		{"numeric leading zero codeword", []int{902, 0, 12}, "", "5.4.4"},
		{"eci", []int{927, 3}, "", "not supported"},
		{"macro", []int{928, 1}, "", "not supported"},
		{"reserved", []int{903}, "", "not supported"},
		{"pads", []int{v(0, 1), 900, 900}, "AB", ""},
	}
	for _, c := range cases {
		r, err := DecodeCodewords(c.cw)
		if c.err != "" {
			if err == nil || !strings.Contains(err.Error(), c.err) {
				t.Errorf("%s: err = %v, want %q", c.name, err, c.err)
			}
			continue
		}
		if err != nil {
			t.Errorf("%s: %v", c.name, err)
			continue
		}
		if string(r.Content) != c.want {
			t.Errorf("%s: content %q, want %q (trace %v)", c.name, r.Content, c.want, r.Trace)
		}
	}
	// 44 digits <-> 15 codewords, 45 digits -> 15 + 1
	digits := strings.Repeat("1234567890", 5)[:45]
	enc := func(s string) []int {
		n, _ := new(big.Int).SetString("1"+s, 10)
		var out []int
		m := new(big.Int)
		for n.Sign() > 0 {
			n.DivMod(n, big.NewInt(900), m)
			out = append([]int{int(m.Int64())}, out...)
		}
		return out
	}
	cw := append([]int{902}, enc(digits[:44])...)
	if len(cw) != 16 {
		t.Fatalf("44 digits gave %d codewords", len(cw)-1)
	}
	cw = append(cw, enc(digits[44:])...)
	r, err := DecodeCodewords(cw)
	if err != nil || string(r.Content) != digits {
		t.Errorf("numeric 45: %v %v", r, err)
	}
}

func TestWidths(t *testing.T) {
	w, ok := Widths(StartPattern)
	if !ok || w != [8]int{8, 1, 1, 1, 1, 1, 1, 3} {
		t.Errorf("start pattern widths %v %v", w, ok)
	}
	if _, ok := Widths(0x1ffff); ok {
		t.Error("all bars accepted")
	}
	if _, ok := Widths(0x15554); ok { // 1 0101 0101 0101 0100: more than 4 bars
		t.Error("too many bars accepted")
	}
}
