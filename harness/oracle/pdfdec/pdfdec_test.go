//go:build verif

package pdfdec

// Tests that need the encoder under test (/repo) and its pattern table. Run:
//
//	go test -tags verif -overlay /verif/harness/oracle/pdfdec/overlay_test.json -vet=off ./oracle/pdfdec/

import (
	"fmt"
	"image/color"
	"os"
	"sort"
	"strings"
	"testing"

	"github.com/boombuler/barcode/pdf417"
	"verif/oracle/grid"
)

func libTable(t testing.TB) *Table {
	t.Helper()
	tab, err := NewTable(pdf417.VerifCodewords())
	if err != nil {
		t.Fatalf("NewTable rejects the library table: %v", err)
	}
	return tab
}

func encodeGrid(t testing.TB, in string, lvl int) (*grid.Grid, error) {
	t.Helper()
	bc, err := pdf417.Encode(in, byte(lvl))
	if err != nil {
		return nil, err
	}
	g, ok, bx, by := grid.FromImage(bc, color.Black, color.White)
	if !ok {
		t.Fatalf("%q level %d: pixel (%d,%d) is neither black nor white", in, lvl, bx, by)
	}
	return g, nil
}

// ---------------------------------------------------------------- table ----

func TestTable(t *testing.T) {
	pat := pdf417.VerifCodewords()
	tab := libTable(t)
	t.Logf("table SHA-256 = %s", tab.Digest())
	st, sp := pdf417.VerifStartStop()
	if st != StartPattern || sp != StopPattern {
		t.Errorf("library start/stop = %#x/%#x, standard says %#x/%#x", st, sp, StartPattern, StopPattern)
	}
	for c := 0; c < 3; c++ {
		for v := 0; v < 929; v++ {
			if tab.Lookup(c, pat[c][v]) != v || tab.Pattern(c, v) != pat[c][v] {
				t.Fatalf("inverse map broken at cluster %d value %d", 3*c, v)
			}
			for o := 0; o < 3; o++ {
				if o != c && tab.Lookup(o, pat[c][v]) != -1 {
					t.Fatalf("pattern of cluster %d found in cluster %d", 3*c, 3*o)
				}
			}
		}
	}
	clone := func() [3][]int {
		var p [3][]int
		for i := range p {
			p[i] = append([]int(nil), pat[i]...)
		}
		return p
	}
	bad := func(name, want string, mod func(p *[3][]int)) {
		p := clone()
		mod(&p)
		_, err := NewTable(p)
		if err == nil || !strings.Contains(err.Error(), want) {
			t.Errorf("%s: err = %v, want %q", name, err, want)
		}
	}
	bad("wrong cluster", "belongs to cluster", func(p *[3][]int) { p[0][17] = p[1][17] })
	bad("wrong cluster 2", "belongs to cluster", func(p *[3][]int) { p[2][900] = p[0][5] })
	bad("duplicate", "share pattern", func(p *[3][]int) { p[1][100] = p[1][500] })
	bad("5 bars", "4 bars and 4 spaces", func(p *[3][]int) { p[0][0] = 0x15554 }) // 1 01 01 01 01 01 01 01 00
	bad("3 bars", "4 bars and 4 spaces", func(p *[3][]int) { p[0][0] = 0x1f0f0 })
	bad("starts with space", "start with a bar", func(p *[3][]int) { p[0][0] &^= 1 << 16 })
	bad("ends with bar", "end with a space", func(p *[3][]int) { p[0][0] |= 1 })
	bad("18 modules", "not a 17-module", func(p *[3][]int) { p[0][0] <<= 1 })
	bad("width 7", "element width", func(p *[3][]int) { p[0][0] = 0x1fd50 }) // widths 7,1,1,1,1,1,1,4
	bad("short", "entries", func(p *[3][]int) { p[2] = p[2][:928] })
	bad("long", "entries", func(p *[3][]int) { p[2] = append(p[2], p[2][0]) })
}

// ------------------------------------------------------------ round trip ----

// observed deviations of the encoder, counted while the round-trip tests run
type deviations struct {
	rowsLT3   map[string]bool // symbols with fewer than 3 rows
	leftInd   map[string]bool // wrong left row indicator in rows 0,3,6,...
	leftIndOK int             // symbols whose strict decode passed
	punctPad  map[string]bool // suspicion (b)
}

func newDev() *deviations {
	return &deviations{rowsLT3: map[string]bool{}, leftInd: map[string]bool{}, punctPad: map[string]bool{}}
}

func (d *deviations) report(t *testing.T) {
	show := func(name string, m map[string]bool) {
		if len(m) == 0 {
			return
		}
		keys := make([]string, 0, len(m))
		for k := range m {
			keys = append(keys, k)
		}
		sort.Slice(keys, func(i, j int) bool {
			if len(keys[i]) != len(keys[j]) {
				return len(keys[i]) < len(keys[j])
			}
			return keys[i] < keys[j]
		})
		if len(keys) > 6 {
			keys = keys[:6]
		}
		t.Logf("ENCODER DEVIATION %s: %d cases, e.g. %s", name, len(m), strings.Join(keys, " | "))
	}
	show("rows<3", d.rowsLT3)
	show("left-row-indicator", d.leftInd)
	show("punct-pad-then-913", d.punctPad)
	t.Logf("symbols decoded strictly without any switch: %d", d.leftIndOK)
}

// decodeTolerant decodes strictly; on the two known geometric deviations it
// records them, checks that the strict error is exactly the expected one, and
// retries with the corresponding switch.
func decodeTolerant(t *testing.T, tab *Table, g *grid.Grid, label string, dev *deviations) (*Result, error) {
	MinRows, LenientLeftRowIndicator = 3, false
	defer func() { MinRows, LenientLeftRowIndicator = 3, false }()
	strict := true
	for try := 0; try < 3; try++ {
		r, err := tab.Decode(g)
		if err == nil {
			if strict {
				dev.leftIndOK++
			}
			return r, nil
		}
		e := err.(*Error)
		rows := g.H / 2
		switch {
		case e.Kind == KindGeometry && strings.Contains(e.Msg, "rows (min 3)") && MinRows == 3:
			dev.rowsLT3[label+fmt.Sprintf(" -> %d rows", rows)] = true
			MinRows = 2
			strict = false
		case e.Kind == KindIndicator && strings.Contains(e.Msg, "left indicator") && !LenientLeftRowIndicator:
			// The strict failure must be the known one: row 0, got (r-3) div 3.
			var row, got, want int
			fmt.Sscanf(e.Msg, "row %d: left indicator is %d, want %d", &row, &got, &want)
			if rows%3 == 0 || row != 0 || got != (rows-3)/3 || want != (rows-1)/3 {
				return nil, fmt.Errorf("unexpected indicator failure: %v", err)
			}
			dev.leftInd[label+fmt.Sprintf(" -> %d rows, row 0 left indicator %d, ISO %d", rows, got, want)] = true
			LenientLeftRowIndicator = true
			strict = false
		default:
			return nil, err
		}
	}
	return nil, fmt.Errorf("no decode after 3 tries")
}

// isPunctPadDefect recognises suspicion (b): the decoder saw a latch to Alpha
// out of Punctuation as the very last value before a 913 byte shift.
func isPunctPadDefect(trace []string) bool {
	for i := 0; i+1 < len(trace); i++ {
		if trace[i] == "TC:P>A" && trace[i+1] == "913" {
			return true
		}
	}
	return false
}

type rtStats struct {
	ok, encErr int
	trace      map[string]int
}

// roundTrip encodes, decodes and compares. It returns false when the input
// was not checked (encoder error).
func roundTrip(t *testing.T, tab *Table, in string, lvl int, dev *deviations, st *rtStats) bool {
	t.Helper()
	g, err := encodeGrid(t, in, lvl)
	if err != nil {
		st.encErr++
		return false
	}
	label := fmt.Sprintf("%q L%d", in, lvl)
	if len(in) > 40 {
		label = fmt.Sprintf("%q...(%d bytes) L%d", in[:40], len(in), lvl)
	}
	r, err := decodeTolerant(t, tab, g, label, dev)
	if err != nil {
		t.Errorf("%s: %v", label, err)
		return true
	}
	for _, s := range r.Trace {
		st.trace[s]++
	}
	if r.Level != lvl {
		t.Errorf("%s: level %d", label, r.Level)
	}
	if r.CheckCodewords != CheckCount(lvl) || len(r.Codewords) != r.Rows*r.Cols ||
		r.LengthDescriptor+r.CheckCodewords != len(r.Codewords) ||
		r.DataCodewords+r.PadCodewords+1 != r.LengthDescriptor || r.Codewords[0] != r.LengthDescriptor {
		t.Errorf("%s: inconsistent result %+v", label, r)
	}
	for _, s := range Syndromes(r.Codewords, r.CheckCodewords) {
		if s != 0 {
			t.Errorf("%s: non-zero syndrome", label)
		}
	}
	if string(r.Content) != in {
		if isPunctPadDefect(r.Trace) {
			dev.punctPad[fmt.Sprintf("%q decodes to %q (data %v)", in, r.Content, r.Codewords[1:1+r.DataCodewords])] = true
			return true
		}
		t.Errorf("%s: decoded %q (data %v, trace %v)", label, r.Content, r.Codewords[1:1+r.DataCodewords], r.Trace)
		return true
	}
	st.ok++
	return true
}

func corpus() []string {
	var c []string
	c = append(c, "")
	for b := 0; b < 256; b++ {
		c = append(c, string([]byte{byte(b)}))
	}
	// every text sub-mode transition the standard offers
	c = append(c,
		"A", "AB", "ABC", "ABCD", "HELLO WORLD", "ABCDEFGHIJKLMNOPQRSTUVWXYZ ",
		"a", "ab", "abc", "abcdefghijklmnopqrstuvwxyz ", "Ab", "aB", "aBc", "abCde", "abCDe", "ABcdEF", "abcDEFghi",
		"1", "12", "A1", "a1", "A12b", "a12B", "AB12CD", "ab12cd", "ab12CD", "AB12cd",
		"0123456789&\r\t,:#-.$/+%*=^ ", "A&B", "a&b", "a#b#c", "A:B", "1&2",
		";", ";;", "A;", "a;", "1;", "A;B", "a;b", "1;2", "A;;B", "a;;b", "1;;2", "A;;;b", "a;;;B", "1;;;a", "1;;;A", "1;;;2",
		";<>@[\\]_`~!\r\t,:\n-.$/\"|*()?{}'", "A;<>@[\\]_`~!\n\"|()?{}'B", "a;<>@[\\]_`~!\n\"|()?{}'b", "1;<>@[\\]_`~!\n\"|()?{}'2",
		"[[[[", "[[[[a", "[[[[A", "[[[[1", "[[[[[", "[[[[[a", "[[[[[A", "[[[[[1", "a[[[[", "A[[[[[", "1[[[[[[",
		"Hello, World!", "The quick brown fox jumps over the lazy dog. 0123456789", "a,b;c:d!e?f(g)h{i}j[k]l", "x=1&y=2#frag",
		"  ", " a ", " 1 ", " ; ", "A a 1 ; ", "\r\n", "a\r\nb", "\t\t\t", "a\tb\tc",
	)
	// digit runs
	digits := strings.Repeat("9876543210", 12)
	for _, n := range []int{1, 2, 12, 13, 14, 15, 16, 43, 44, 45, 46, 87, 88, 89, 90, 100} {
		c = append(c, digits[:n], "0"+digits[:n-1], strings.Repeat("0", n), "AB"+digits[:n], digits[:n]+"ab", "ab"+digits[:n]+"cd", ";"+digits[:n]+";", "\x80"+digits[:n]+"\x80")
	}
	// byte runs
	for n := 1; n <= 14; n++ {
		b := make([]byte, n)
		for i := range b {
			b[i] = byte(0x80 + 9*i + n)
		}
		s := string(b)
		c = append(c, s, "AB"+s, s+"AB", "ab"+s+"cd", "a"+s+"c", "1"+s+"2", ";"+s+";", "12"+s+"1234567890123456", strings.Repeat("\x00", n), strings.Repeat("\xff", n))
	}
	for _, n := range []int{17, 18, 19, 23, 24, 25, 29, 30, 31, 36, 60, 61} {
		b := make([]byte, n)
		for i := range b {
			b[i] = byte(255 - 7*i)
		}
		c = append(c, string(b))
	}
	// text + 1 byte + text and text + 2 bytes + text in every sub-mode, with
	// even and odd text lengths in front
	for _, pre := range []string{"A", "AB", "a", "ab", "1", "12", "a1", "ab1", "&", "a&", "A;", "AB;", "1[[[", "1[[[["} {
		for _, post := range []string{"", "A", "a", "1", "AB", "ab", "12", "&&"} {
			c = append(c, pre+"\x80"+post, pre+"\x80\x81"+post, pre+"\x80"+post+"\x81"+post)
		}
	}
	// text ending in Punctuation sub-mode, then a byte shift, then more text
	// (suspicion (b): the mismatching ones are recognised and reported)
	for _, pre := range []string{"", "A", "a", "1", "AB", "ab", "12", "A1", "&"} {
		for k := 1; k <= 8; k++ {
			for _, post := range []string{"", ";", ";;", ";;;;;;", "A", "AB", "a", "1", "&", "ABCDEF", "abcdef", "123456", "&&&&&&&", "\n\n\n\n\n\n", ";;;;;;A"} {
				c = append(c, pre+strings.Repeat(";", k)+"\x80"+post)
			}
		}
	}
	return c
}

func TestRoundTripCorpus(t *testing.T) {
	tab := libTable(t)
	dev := newDev()
	st := &rtStats{trace: map[string]int{}}
	c := corpus()
	for lvl := 0; lvl <= 8; lvl++ {
		for _, in := range c {
			if !roundTrip(t, tab, in, lvl, dev, st) {
				t.Errorf("%q level %d: encoder refused", in, lvl)
			}
		}
	}
	t.Logf("%d inputs x 9 levels: %d exact round trips", len(c), st.ok)
	dev.report(t)
	keys := make([]string, 0)
	for k, n := range st.trace {
		keys = append(keys, fmt.Sprintf("%s=%d", k, n))
	}
	sort.Strings(keys)
	t.Logf("trace coverage: %s", strings.Join(keys, " "))
	for _, want := range []string{"900", "901", "902", "913", "924", "TC:A>L", "TC:A>M", "TC:L>M", "TC:M>L", "TC:M>A", "TC:M>P", "TC:P>A", "ps", "as", "shift-dropped"} {
		if st.trace[want] == 0 {
			t.Logf("trace element %q never produced by the encoder on this corpus", want)
		}
	}
}

// The empty string: report what the encoder does with it.
func TestEmptyString(t *testing.T) {
	tab := libTable(t)
	for lvl := 0; lvl <= 8; lvl++ {
		g, err := encodeGrid(t, "", lvl)
		if err != nil {
			t.Logf("\"\" level %d: encoder error %v", lvl, err)
			continue
		}
		MinRows, LenientLeftRowIndicator = 3, false
		_, strictErr := tab.Decode(g)
		MinRows, LenientLeftRowIndicator = 1, true
		r, err := tab.Decode(g)
		MinRows, LenientLeftRowIndicator = 3, false
		if err != nil {
			t.Errorf("\"\" level %d: %v", lvl, err)
			continue
		}
		t.Logf("\"\" level %d: %d rows x %d cols, descriptor %d, %d pads, content %q, strict decode: %v", lvl, r.Rows, r.Cols, r.LengthDescriptor, r.PadCodewords, r.Content, strictErr)
	}
}

// Every string of length <= maxLen over an alphabet with one representative of
// every character class.
func TestRoundTripExhaustive(t *testing.T) {
	tab := libTable(t)
	dev := newDev()
	st := &rtStats{trace: map[string]int{}}
	alpha := []byte{'A', 'b', '1', '&', ';', ',', ' ', '\n', 0x80}
	maxLen := 5
	if os.Getenv("PDFDEC_LONG") != "" {
		maxLen = 6
	}
	buf := make([]byte, 0, maxLen)
	var rec func()
	n := 0
	rec = func() {
		if len(buf) > 0 {
			n++
			roundTrip(t, tab, string(buf), 1, dev, st)
		}
		if len(buf) == maxLen || t.Failed() && n > 200000 {
			return
		}
		for _, a := range alpha {
			buf = append(buf, a)
			rec()
			buf = buf[:len(buf)-1]
		}
	}
	rec()
	t.Logf("%d strings, %d exact round trips, %d encoder errors", n, st.ok, st.encErr)
	dev.report(t)
}

// Long inputs up to (and one past) the capacity at each level.
func TestRoundTripCapacity(t *testing.T) {
	tab := libTable(t)
	dev := newDev()
	st := &rtStats{trace: map[string]int{}}
	gens := map[string]func(n int) string{
		"upper":  func(n int) string { return strings.Repeat("ABCDEFGHIJKLMNOPQRSTUVWXYZ ", n/27+1)[:n] },
		"mixed":  func(n int) string { return strings.Repeat("Hello, World! 123 (test) #42; ", n/30+1)[:n] },
		"digits": func(n int) string { return strings.Repeat("1234567890", n/10+1)[:n] },
		"bytes": func(n int) string {
			b := make([]byte, n)
			for i := range b {
				b[i] = byte(128 + i%128)
			}
			return string(b)
		},
	}
	names := []string{"upper", "mixed", "digits", "bytes"}
	for lvl := 0; lvl <= 8; lvl++ {
		for _, name := range names {
			gen := gens[name]
			// largest n the encoder accepts
			lo, hi := 0, 4000
			for lo < hi {
				mid := (lo + hi + 1) / 2
				if _, err := pdf417.Encode(gen(mid), byte(lvl)); err == nil {
					lo = mid
				} else {
					hi = mid - 1
				}
			}
			_, errOver := pdf417.Encode(gen(lo+1), byte(lvl))
			g, _ := encodeGrid(t, gen(lo), lvl)
			t.Logf("level %d %-6s: capacity %4d characters (%d rows); %d+1 -> %v", lvl, name, lo, g.H/2, lo, errOver)
			for _, n := range []int{lo, lo - 1, lo - 2, lo - 7, lo / 2, lo / 3} {
				if n > 0 {
					roundTrip(t, tab, gen(n), lvl, dev, st)
				}
			}
		}
	}
	// a sweep of lengths at one level
	for n := 1; n <= 400; n++ {
		for _, name := range names {
			roundTrip(t, tab, gens[name](n), 3, dev, st)
		}
	}
	t.Logf("%d exact round trips", st.ok)
	dev.report(t)
}

// ------------------------------------------------------------- negatives ----

func cloneGrid(g *grid.Grid) *grid.Grid {
	c := grid.New(g.W, g.H)
	copy(c.Bits, g.Bits)
	return c
}

// flip inverts module x of symbol row in both pixel rows.
func flip(g *grid.Grid, row, x int) {
	g.Set(x, 2*row, !g.At(x, 2*row))
	g.Set(x, 2*row+1, !g.At(x, 2*row+1))
}

// putPattern overwrites the 17 modules of codeword position pos (0 = left
// indicator) of a symbol row.
func putPattern(g *grid.Grid, row, pos, p int) {
	for b := 0; b < 17; b++ {
		v := p>>(16-uint(b))&1 == 1
		x := 17 + 17*pos + b
		g.Set(x, 2*row, v)
		g.Set(x, 2*row+1, v)
	}
}

func wantKind(t *testing.T, tab *Table, g *grid.Grid, k Kind, what string) {
	t.Helper()
	_, err := tab.Decode(g)
	if err == nil {
		t.Errorf("%s: decode succeeded", what)
		return
	}
	if e := err.(*Error); e.Kind != k {
		t.Errorf("%s: error %v, want kind %s", what, err, k)
	}
}

func TestNegative(t *testing.T) {
	tab := libTable(t)
	// 6 rows (a multiple of 3, so the symbol is strictly valid) x 3 columns
	in := "1;;;;\x80;;;;;;"
	g0, err := encodeGrid(t, in, 2)
	if err != nil {
		t.Fatal(err)
	}
	base, err := tab.Decode(g0)
	if err != nil {
		t.Fatalf("base symbol must decode strictly: %v", err)
	}
	rows, cols := base.Rows, base.Cols
	if rows%3 != 0 {
		t.Fatalf("base symbol has %d rows", rows)
	}
	W := g0.W

	// one pixel row only
	g := cloneGrid(g0)
	g.Set(40, 3, !g.At(40, 3))
	wantKind(t, tab, g, KindGeometry, "pixel rows differ")

	for row := 0; row < rows; row++ {
		for x := 0; x < 17; x++ {
			g := cloneGrid(g0)
			flip(g, row, x)
			wantKind(t, tab, g, KindStart, fmt.Sprintf("start row %d module %d", row, x))
		}
		for x := W - 18; x < W; x++ {
			g := cloneGrid(g0)
			flip(g, row, x)
			wantKind(t, tab, g, KindStop, fmt.Sprintf("stop row %d module %d", row, x))
		}
		// a single flipped module anywhere else always leaves the cluster
		for x := 17; x < W-18; x++ {
			g := cloneGrid(g0)
			flip(g, row, x)
			wantKind(t, tab, g, KindPattern, fmt.Sprintf("row %d module %d", row, x))
		}
		// pattern of the right value but of the wrong cluster
		for pos := 0; pos < cols+2; pos++ {
			v := tab.Lookup(row%3, readBits(g0.Bits[2*row*W:], 17+17*pos, 17))
			if v < 0 {
				t.Fatal("lookup")
			}
			g := cloneGrid(g0)
			putPattern(g, row, pos, tab.Pattern((row+1)%3, v))
			wantKind(t, tab, g, KindPattern, fmt.Sprintf("row %d pos %d wrong cluster", row, pos))
		}
		// indicators replaced by other valid patterns of the same cluster
		for _, pos := range []int{0, cols + 1} {
			v := tab.Lookup(row%3, readBits(g0.Bits[2*row*W:], 17+17*pos, 17))
			for _, d := range []int{1, 2, 3, 30, 31, 900, 928} {
				g := cloneGrid(g0)
				putPattern(g, row, pos, tab.Pattern(row%3, (v+d)%929))
				wantKind(t, tab, g, KindIndicator, fmt.Sprintf("row %d indicator pos %d +%d", row, pos, d))
			}
		}
		// data codewords replaced by other valid patterns of the same cluster
		for col := 0; col < cols; col++ {
			v := base.Codewords[row*cols+col]
			for _, d := range []int{1, 2, 29, 30, 464, 900, 928} {
				g := cloneGrid(g0)
				putPattern(g, row, col+1, tab.Pattern(row%3, (v+d)%929))
				want := KindSyndrome
				if row == 0 && col == 0 {
					want = KindLength
				}
				wantKind(t, tab, g, want, fmt.Sprintf("row %d col %d +%d", row, col, d))
			}
		}
	}

	// two codewords swapped: still all valid patterns, syndromes must trip
	g = cloneGrid(g0)
	putPattern(g, 0, 2, tab.Pattern(0, base.Codewords[2]))
	putPattern(g, 0, 3, tab.Pattern(0, base.Codewords[1]))
	if base.Codewords[1] != base.Codewords[2] {
		wantKind(t, tab, g, KindSyndrome, "swap")
	}

	// geometry
	for _, c := range []struct {
		w, h int
		k    Kind
	}{{W - 1, g0.H, KindGeometry}, {W + 1, g0.H, KindGeometry}, {W, g0.H - 1, KindGeometry}, {W, 4, KindGeometry}, {17*4 + 1, 6, KindGeometry}, {17*35 + 1, 6, KindGeometry}, {17*34 + 1, 182, KindGeometry}, {17*34 + 1, 64, KindLength}} {
		wantKind(t, tab, grid.New(c.w, c.h), c.k, fmt.Sprintf("empty %dx%d", c.w, c.h))
	}
	// a row removed (rows no longer match the indicators)
	g = grid.New(W, g0.H-2)
	copy(g.Bits, g0.Bits)
	wantKind(t, tab, g, KindIndicator, "last row removed")
	// a row duplicated
	g = grid.New(W, g0.H+2)
	copy(g.Bits, g0.Bits)
	copy(g.Bits[len(g0.Bits):], g0.Bits[:2*W])
	wantKind(t, tab, g, KindIndicator, "row added")

	// the original still decodes and the decoder did not touch the grid
	if r, err := tab.Decode(g0); err != nil || string(r.Content) != string(base.Content) {
		t.Errorf("base symbol no longer decodes: %v", err)
	}
}

// Decode must be safe for concurrent use.
func TestConcurrent(t *testing.T) {
	tab := libTable(t)
	g, _ := encodeGrid(t, "Concurrent decode 1234567890123456 \x80\x81", 3)
	g2, _ := encodeGrid(t, "ABCDEF", 2) // 3 rows? whatever: decode errors are fine here
	MinRows, LenientLeftRowIndicator = 2, true
	defer func() { MinRows, LenientLeftRowIndicator = 3, false }()
	want, err := tab.Decode(g)
	if err != nil {
		t.Fatal(err)
	}
	done := make(chan bool)
	for w := 0; w < 8; w++ {
		go func() {
			ok := true
			for i := 0; i < 2000; i++ {
				r, err := tab.Decode(g)
				ok = ok && err == nil && string(r.Content) == string(want.Content)
				tab.Decode(g2)
			}
			done <- ok
		}()
	}
	for w := 0; w < 8; w++ {
		if !<-done {
			t.Error("concurrent decode differs")
		}
	}
}

// ------------------------------------------------------------ benchmarks ----

func benchDecode(b *testing.B, in string, lvl int) {
	tab := libTable(b)
	g, err := encodeGrid(b, in, lvl)
	if err != nil {
		b.Fatal(err)
	}
	MinRows, LenientLeftRowIndicator = 2, true
	defer func() { MinRows, LenientLeftRowIndicator = 3, false }()
	r, err := tab.Decode(g)
	if err != nil {
		b.Fatal(err)
	}
	b.ReportMetric(float64(r.Rows), "rows")
	b.ReportMetric(float64(r.Cols), "cols")
	b.ReportAllocs()
	b.ResetTimer()
	for i := 0; i < b.N; i++ {
		if _, err := tab.Decode(g); err != nil {
			b.Fatal(err)
		}
	}
}

func BenchmarkDecode3Rows(b *testing.B)   { benchDecode(b, "ABCDEFGHIJ", 0) }
func BenchmarkDecodeSmallL2(b *testing.B) { benchDecode(b, "Hello, World! 123", 2) }
func BenchmarkDecodeBigL0(b *testing.B) {
	benchDecode(b, strings.Repeat("ABCDEFGHIJKLMNOPQRSTUVWXYZ ", 70)[:1794], 0)
}
func BenchmarkDecodeBigL8(b *testing.B) {
	benchDecode(b, strings.Repeat("ABCDEFGHIJKLMNOPQRSTUVWXYZ ", 70)[:774], 8)
}
func BenchmarkDecodeBigNumericL5(b *testing.B) {
	benchDecode(b, strings.Repeat("1234567890", 200)[:1500], 5)
}
