package dmdec

import (
	"bytes"
	"fmt"
	"image/color"
	"strings"
	"sync"
	"testing"

	"github.com/boombuler/barcode/datamatrix"

	"verif/oracle/grid"
)

// ---------------------------------------------------------------------------
// (1) table invariants

func TestTableInvariants(t *testing.T) {
	if len(Sizes) != 24 {
		t.Fatalf("want 24 square sizes, have %d", len(Sizes))
	}
	var fixedSizes []string
	for i, s := range Sizes {
		name := fmt.Sprintf("%dx%d", s.Rows, s.Cols)
		if s.Rows != s.Cols || s.RegionsH != s.RegionsV {
			t.Errorf("%s: not square", name)
		}
		if s.Rows%2 != 0 {
			t.Errorf("%s: odd size", name)
		}
		if i > 0 {
			p := Sizes[i-1]
			if s.Rows <= p.Rows || s.DataCodewords <= p.DataCodewords || s.ECCodewords <= p.ECCodewords || s.Blocks < p.Blocks {
				t.Errorf("%s: not ascending after %dx%d", name, p.Rows, p.Cols)
			}
		}
		nrow, ncol := s.MappingRows(), s.MappingCols()
		if nrow%s.RegionsV != 0 || ncol%s.RegionsH != 0 {
			t.Errorf("%s: mapping matrix %dx%d not divisible into %dx%d regions", name, nrow, ncol, s.RegionsV, s.RegionsH)
		}
		rs := s.RegionRows()
		switch rs {
		case 8, 10, 12, 14, 16, 18, 20, 22, 24:
		default:
			t.Errorf("%s: region size %d not allowed", name, rs)
		}
		if s.RegionsH > 1 && rs < 14 {
			t.Errorf("%s: multi-region symbol with region size %d", name, rs)
		}
		if got, want := nrow*ncol/8, s.DataCodewords+s.ECCodewords; got != want {
			t.Errorf("%s: modules/8 = %d, data+ecc = %d", name, got, want)
		}
		spare := nrow*ncol - 8*(s.DataCodewords+s.ECCodewords)
		if spare != 0 && spare != 4 {
			t.Errorf("%s: %d spare modules", name, spare)
		}
		if spare == 4 {
			fixedSizes = append(fixedSizes, name)
		}
		if s.ECCodewords%s.Blocks != 0 {
			t.Errorf("%s: ecc %d not divisible by %d blocks", name, s.ECCodewords, s.Blocks)
		}
		if s.ECCPerBlock() > maxECCPerBlock {
			t.Errorf("%s: %d ecc per block", name, s.ECCPerBlock())
		}
		// every block is a RS codeword of at most 255 symbols
		sum := 0
		for b := 0; b < s.Blocks; b++ {
			d := s.DataInBlock(b)
			sum += d
			if d+s.ECCPerBlock() > 255 {
				t.Errorf("%s: block %d has %d codewords", name, b, d+s.ECCPerBlock())
			}
		}
		if sum != s.DataCodewords {
			t.Errorf("%s: blocks hold %d data codewords, want %d", name, sum, s.DataCodewords)
		}
		if s.Rows != 144 && s.DataCodewords%s.Blocks != 0 {
			t.Errorf("%s: data %d not divisible by %d blocks", name, s.DataCodewords, s.Blocks)
		}
	}
	l := Sizes[23]
	for b := 0; b < 10; b++ {
		want := 156
		if b >= 8 {
			want = 155
		}
		if l.DataInBlock(b) != want || l.ECCPerBlock() != 62 {
			t.Errorf("144x144 block %d: %d data / %d ecc", b, l.DataInBlock(b), l.ECCPerBlock())
		}
	}
	if Sizes[23].DataCodewords != MaxDataCodewords {
		t.Errorf("max capacity")
	}
	if got := strings.Join(fixedSizes, " "); got != "12x12 16x16 20x20 24x24" {
		t.Errorf("sizes with 4 spare modules: %s", got)
	}
	t.Logf("sizes with 4 spare modules (fixed pattern): %v", fixedSizes)
}

func TestSizeFor(t *testing.T) {
	for n := 0; n <= 1600; n++ {
		idx, ok := SizeFor(n)
		if n > 1558 {
			if ok {
				t.Fatalf("SizeFor(%d) ok", n)
			}
			continue
		}
		if !ok || Sizes[idx].DataCodewords < n || (idx > 0 && Sizes[idx-1].DataCodewords >= n) {
			t.Fatalf("SizeFor(%d) = %d,%v", n, idx, ok)
		}
	}
	if _, ok := SizeFor(-1); ok {
		t.Fatal("SizeFor(-1)")
	}
}

func TestRefEncodeLen(t *testing.T) {
	for _, c := range []struct {
		in   string
		want int
	}{
		{"", 0}, {"a", 1}, {"1", 1}, {"12", 1}, {"123", 2}, {"1234", 2}, {"a12", 2}, {"a123", 3}, {"1a2", 3},
		{"\x80", 2}, {"\xff\xff", 4}, {"1\x802", 4}, {"12ab34", 4}, {"\x00", 1}, {"\x7f", 1}, {"0/", 2}, {"9:", 2},
	} {
		if got := RefEncodeLen([]byte(c.in)); got != c.want {
			t.Errorf("RefEncodeLen(%q) = %d, want %d", c.in, got, c.want)
		}
	}
}

func TestGF(t *testing.T) {
	// alpha is primitive: the 255 powers are distinct and non-zero
	var seen [256]bool
	for i := 0; i < 255; i++ {
		v := gfExp[i]
		if v == 0 || seen[v] {
			t.Fatalf("alpha^%d = %d repeated/zero", i, v)
		}
		seen[v] = true
	}
	if gfExp[8] != 0x2D { // x^8 = x^5+x^3+x^2+1
		t.Fatalf("alpha^8 = %#x", gfExp[8])
	}
	// multiplication against a bitwise carry-less implementation
	slow := func(a, b byte) byte {
		var r int
		x := int(a)
		for i := 0; i < 8; i++ {
			if b&(1<<uint(i)) != 0 {
				r ^= x
			}
			x <<= 1
			if x&0x100 != 0 {
				x ^= gfPoly
			}
		}
		return byte(r)
	}
	for a := 0; a < 256; a++ {
		for b := 0; b < 256; b++ {
			if gfMul(byte(a), byte(b)) != slow(byte(a), byte(b)) {
				t.Fatalf("gfMul(%d,%d)", a, b)
			}
		}
		for i := 0; i <= maxECCPerBlock; i++ {
			if gfMulAlpha[i][a] != slow(byte(a), gfExp[i]) {
				t.Fatalf("gfMulAlpha[%d][%d]", i, a)
			}
		}
	}
}

func TestPadCodeword(t *testing.T) {
	// hand computed: p=2: 129+(298%253=45)+1 = 175; p=3: 129+(447%253=194)+1=324-254=70
	if PadCodeword(2) != 175 || PadCodeword(3) != 70 {
		t.Fatalf("PadCodeword(2,3) = %d,%d", PadCodeword(2), PadCodeword(3))
	}
	for p := 1; p <= 1558; p++ {
		if v := PadCodeword(p); v < 1 || v > 254 {
			t.Fatalf("PadCodeword(%d) = %d", p, v)
		}
	}
}

// ---------------------------------------------------------------------------
// (2) placement

func TestPlacementAllSizes(t *testing.T) {
	for i, s := range Sizes {
		pl, err := ComputePlacement(s.MappingRows(), s.MappingCols())
		if err != nil {
			t.Errorf("%dx%d: %v", s.Rows, s.Cols, err)
			continue
		}
		// independent recount
		cnt := make(map[int32]int)
		un := 0
		for _, v := range pl.Cell {
			if v == 0 {
				un++
			} else {
				cnt[v]++
			}
		}
		for v, n := range cnt {
			if n != 1 {
				t.Errorf("%dx%d: codeword %d bit %d on %d modules", s.Rows, s.Cols, v>>3, v&7+1, n)
			}
		}
		if len(cnt) != 8*(s.DataCodewords+s.ECCodewords) || pl.NCodewords != s.DataCodewords+s.ECCodewords {
			t.Errorf("%dx%d: %d codeword bits placed, %d codewords; want %d codewords", s.Rows, s.Cols, len(cnt), pl.NCodewords, s.DataCodewords+s.ECCodewords)
		}
		wantFixed := s.MappingRows()*s.MappingCols()%8 == 4
		if pl.Fixed != wantFixed || (wantFixed && un != 4) || (!wantFixed && un != 0) {
			t.Errorf("%dx%d: fixed=%v unassigned=%d", s.Rows, s.Cols, pl.Fixed, un)
		}
		// for square symbols exactly one corner case fires, determined by
		// the mapping matrix side mod 8: 0 -> case 1 (and 4 never, as
		// row==nrow+4,col==2 is not reached when case 1 fired ... checked
		// empirically below), 4 -> case 1? Just record and sanity check.
		n := 0
		for _, c := range pl.CornerCases {
			if c {
				n++
			}
		}
		if n > 1 {
			// corner 2 and 3 can never both fire with corner 1; more than one corner
			// codeword would be legal per the algorithm, but report it.
			t.Logf("%dx%d: %d corner cases", s.Rows, s.Cols, n)
		}
		// cached layout agrees and maps every bit to a distinct interior module
		l, err := getLayout(i)
		if err != nil {
			t.Errorf("%dx%d: layout: %v", s.Rows, s.Cols, err)
			continue
		}
		used := make(map[int32]string)
		mark := func(i int32, what string) {
			if o, dup := used[i]; dup {
				t.Errorf("%dx%d: grid module %d used as %s and %s", s.Rows, s.Cols, i, o, what)
			}
			used[i] = what
		}
		for _, p := range l.bitPos {
			mark(p, "data")
		}
		for _, p := range l.mustDark {
			mark(p, "dark border")
		}
		for _, p := range l.mustLight {
			mark(p, "light border")
		}
		if l.fixed {
			for _, p := range l.fixedDark {
				mark(p, "fixed dark")
			}
			for _, p := range l.fixedLight {
				mark(p, "fixed light")
			}
		}
		if len(used) != s.Rows*s.Cols {
			t.Errorf("%dx%d: layout covers %d of %d modules", s.Rows, s.Cols, len(used), s.Rows*s.Cols)
		}
		t.Logf("%3dx%-3d mapping %3dx%-3d corners=%v fixed=%v", s.Rows, s.Cols, pl.NRow, pl.NCol, pl.CornerCases, pl.Fixed)
	}
}

// The 8x8 mapping matrix of the 10x10 symbol, transcribed from ISO/IEC 16022
// Figure F.? ("codeword placement for the 10x10 symbol"), as codeword.bit.
func TestPlacement10x10Known(t *testing.T) {
	want := [8][8]string{
		{"2.1", "2.2", "3.6", "3.7", "3.8", "4.3", "4.4", "4.5"},
		{"2.3", "2.4", "2.5", "5.1", "5.2", "4.6", "4.7", "4.8"},
		{"2.6", "2.7", "2.8", "5.3", "5.4", "5.5", "1.1", "1.2"},
		{"1.5", "6.1", "6.2", "5.6", "5.7", "5.8", "1.3", "1.4"},
		{"1.8", "6.3", "6.4", "6.5", "8.1", "8.2", "1.6", "1.7"},
		{"7.2", "6.6", "6.7", "6.8", "8.3", "8.4", "8.5", "7.1"},
		{"7.4", "7.5", "3.1", "3.2", "8.6", "8.7", "8.8", "7.3"},
		{"7.7", "7.8", "3.3", "3.4", "3.5", "4.1", "4.2", "7.6"},
	}
	pl, err := ComputePlacement(8, 8)
	if err != nil {
		t.Fatal(err)
	}
	for r := 0; r < 8; r++ {
		for c := 0; c < 8; c++ {
			v := pl.Cell[r*8+c]
			got := fmt.Sprintf("%d.%d", v>>3, v&7+1)
			if got != want[r][c] {
				t.Errorf("(%d,%d): got %s want %s", r, c, got, want[r][c])
			}
		}
	}
}

// ---------------------------------------------------------------------------
// test-side reference encoder (uses the decoder's placement and field; it is
// only used to exercise decoder paths the library cannot produce)

func rsGenerator(necc int) []byte {
	// g(x) = prod_{i=1..necc} (x - alpha^i), highest coefficient first
	g := []byte{1}
	for i := 1; i <= necc; i++ {
		ng := make([]byte, len(g)+1)
		for j, c := range g {
			ng[j] ^= c
			ng[j+1] ^= gfMul(c, gfExp[i])
		}
		g = ng
	}
	return g
}

func rsRemainder(data []byte, necc int) []byte {
	g := rsGenerator(necc)
	rem := make([]byte, necc)
	for _, d := range data {
		f := d ^ rem[0]
		copy(rem, rem[1:])
		rem[necc-1] = 0
		for j := 0; j < necc; j++ {
			rem[j] ^= gfMul(f, g[j+1])
		}
	}
	return rem
}

// buildSymbol renders data codewords (exactly the capacity of size idx).
func buildSymbol(t testing.TB, idx int, data []byte) *grid.Grid {
	s := Sizes[idx]
	if len(data) != s.DataCodewords {
		t.Fatalf("buildSymbol: %d data codewords for %dx%d", len(data), s.Rows, s.Cols)
	}
	ecc := make([]byte, s.ECCodewords)
	for b := 0; b < s.Blocks; b++ {
		var blk []byte
		for k := b; k < len(data); k += s.Blocks {
			blk = append(blk, data[k])
		}
		rem := rsRemainder(blk, s.ECCPerBlock())
		for j, v := range rem {
			ecc[b+j*s.Blocks] = v
		}
	}
	all := append(append([]byte{}, data...), ecc...)
	l, err := getLayout(idx)
	if err != nil {
		t.Fatal(err)
	}
	g := grid.New(s.Cols, s.Rows)
	for _, i := range l.mustDark {
		g.Bits[i] = true
	}
	if l.fixed {
		for _, i := range l.fixedDark {
			g.Bits[i] = true
		}
	}
	for k, v := range all {
		for bit := 0; bit < 8; bit++ {
			if v&(0x80>>uint(bit)) != 0 {
				g.Bits[l.bitPos[k*8+bit]] = true
			}
		}
	}
	return g
}

// refCodewords is the standard ASCII encodation + padding for size idx.
func refCodewords(content []byte, idx int) []byte {
	var cw []byte
	for i := 0; i < len(content); {
		c := content[i]
		switch {
		case isDigit(c) && i+1 < len(content) && isDigit(content[i+1]):
			cw = append(cw, 130+(c-'0')*10+(content[i+1]-'0'))
			i += 2
		case c >= 128:
			cw = append(cw, 235, c-128+1)
			i++
		default:
			cw = append(cw, c+1)
			i++
		}
	}
	n := Sizes[idx].DataCodewords
	if len(cw) < n {
		cw = append(cw, 129)
		for len(cw) < n {
			cw = append(cw, PadCodeword(len(cw)+1))
		}
	}
	return cw
}

func TestSelfRoundTrip(t *testing.T) {
	for idx, s := range Sizes {
		for _, fill := range []int{0, 1, s.DataCodewords - 1, s.DataCodewords} {
			if fill < 0 {
				continue
			}
			content := mkContent(fill, idx+fill)
			cw := refCodewords(content, idx)
			g := buildSymbol(t, idx, cw)
			res, err := Decode(g)
			if err != nil {
				t.Errorf("%dx%d fill %d: %v", s.Rows, s.Cols, fill, err)
				continue
			}
			if !bytes.Equal(res.Content, content) || res.DataUsed != fill || res.PadCodewords != s.DataCodewords-fill || res.SizeIndex != idx || !bytes.Equal(res.Codewords, cw) {
				t.Errorf("%dx%d fill %d: bad result %+v", s.Rows, s.Cols, fill, res)
			}
		}
	}
}

func TestStrictCodewords(t *testing.T) {
	const idx = 2 // 14x14, 8 data codewords
	ok := func(cw ...byte) {
		t.Helper()
		if _, err := Decode(buildSymbol(t, idx, cw)); err != nil {
			t.Errorf("%v: unexpected error %v", cw, err)
		}
	}
	bad := func(why string, cw ...byte) {
		t.Helper()
		_, err := Decode(buildSymbol(t, idx, cw))
		if err == nil {
			t.Errorf("%s: %v accepted", why, cw)
		} else {
			t.Logf("%s: %v", why, err)
		}
	}
	p := PadCodeword
	ok(66, 67, 68, 129, p(5), p(6), p(7), p(8))
	ok(66, 67, 68, 69, 70, 71, 72, 129)
	ok(66, 67, 68, 69, 70, 71, 72, 73)
	ok(66, 67, 68, 69, 70, 71, 235, 1)
	ok(66, 67, 68, 69, 70, 71, 235, 128)
	ok(1, 128, 130, 229, 235, 1, 129, p(8))
	bad("unrandomised pads", 66, 67, 68, 129, 129, 129, 129, 129)
	bad("wrong pad position", 66, 67, 68, 129, p(6), p(7), p(8), p(9))
	bad("data after pad", 66, 67, 68, 129, p(5), p(6), p(7), 66)
	// note: a randomised value in place of the first pad cannot be detected as
	// such: e.g. p(4)=220 is the digit pair "90"; it is simply data.
	bad("upper shift at end", 66, 67, 68, 69, 70, 71, 72, 235)
	bad("upper shift + pad", 66, 67, 68, 69, 70, 71, 235, 129)
	bad("upper shift + digits", 66, 67, 68, 69, 70, 235, 130, 129)
	bad("double upper shift", 66, 67, 68, 69, 70, 235, 235, 1)
	bad("zero codeword", 66, 0, 68, 129, p(5), p(6), p(7), p(8))
	bad("255 codeword", 66, 255, 68, 129, p(5), p(6), p(7), p(8))
	for c := 230; c <= 254; c++ {
		if c == 235 {
			continue
		}
		bad(fmt.Sprintf("codeword %d", c), 66, byte(c), 68, 69, 70, 71, 72, 73)
	}
}

// ---------------------------------------------------------------------------
// (3) round trip through the library

func encodeLib(t testing.TB, content []byte) (*grid.Grid, error) {
	bc, err := datamatrix.Encode(string(content))
	if err != nil {
		return nil, err
	}
	g, ok, bx, by := grid.FromImage(bc, color.Black, color.White)
	if !ok {
		t.Fatalf("library image has a pixel that is neither black nor white at %d,%d", bx, by)
	}
	return g, nil
}

func roundTrip(t *testing.T, content []byte) {
	t.Helper()
	label := fmt.Sprintf("%q", content)
	if len(label) > 60 {
		label = fmt.Sprintf("%s...(%d bytes)", label[:60], len(content))
	}
	n := RefEncodeLen(content)
	wantIdx, fits := SizeFor(n)
	g, err := encodeLib(t, content)
	if !fits {
		if err == nil {
			t.Errorf("%s: %d codewords exceed capacity but the library produced a %dx%d symbol", label, n, g.W, g.H)
		}
		return
	}
	if err != nil {
		t.Errorf("%s (%d codewords): library error: %v", label, n, err)
		return
	}
	res, err := Decode(g)
	if err != nil {
		t.Errorf("%s (%d codewords): %v", label, n, err)
		return
	}
	if !bytes.Equal(res.Content, content) {
		t.Errorf("%s: decoded %q", label, res.Content)
	}
	if res.SizeIndex != wantIdx {
		t.Errorf("%s: %d codewords: library chose %dx%d, smallest fitting size is %dx%d", label, n, res.Size.Rows, res.Size.Cols, Sizes[wantIdx].Rows, Sizes[wantIdx].Cols)
	}
	if res.DataUsed != n {
		t.Errorf("%s: encodation uses %d codewords, reference needs %d", label, res.DataUsed, n)
	}
	if res.DataUsed+res.PadCodewords != res.Size.DataCodewords {
		t.Errorf("%s: used %d + pad %d != %d", label, res.DataUsed, res.PadCodewords, res.Size.DataCodewords)
	}
	// the whole symbol must equal the reference rendering
	if res.SizeIndex == wantIdx {
		ref := buildSymbol(t, wantIdx, refCodewords(content, wantIdx))
		if !bytes.Equal(boolBytes(ref.Bits), boolBytes(g.Bits)) {
			t.Errorf("%s: symbol differs from reference rendering", label)
		}
	}
}

func boolBytes(b []bool) []byte {
	o := make([]byte, len(b))
	for i, v := range b {
		if v {
			o[i] = 1
		}
	}
	return o
}

// mkContent builds content whose reference encodation has exactly n codewords,
// mixing letters (1 cw), digit pairs (1 cw) and bytes >= 128 (2 cw). variant
// changes the mixture.
func mkContent(n, variant int) []byte {
	var out []byte
	left := n
	k := variant
	for left > 0 {
		switch m := k % 4; {
		case m == 0 || (m == 3 && left < 2):
			out = append(out, byte('A'+k%26))
			left--
		case m == 1:
			out = append(out, byte('0'+k%10), byte('0'+(k/3)%10))
			left--
		case m == 2:
			// lone digit followed by a non digit
			out = append(out, byte('0'+k%10))
			left--
			if left > 0 {
				out = append(out, byte('a'+k%26))
				left--
			}
		default:
			out = append(out, byte(128+k%128))
			left -= 2
		}
		k++
	}
	if RefEncodeLen(out) != n {
		panic(fmt.Sprintf("mkContent(%d,%d) has %d codewords", n, variant, RefEncodeLen(out)))
	}
	return out
}

func TestLibEmpty(t *testing.T) { roundTrip(t, nil) }

func TestLibSingleBytes(t *testing.T) {
	for b := 0; b < 256; b++ {
		roundTrip(t, []byte{byte(b)})
	}
}

func TestLibAllBytePairsSample(t *testing.T) {
	for a := 0; a < 256; a += 5 {
		for b := 0; b < 256; b += 3 {
			roundTrip(t, []byte{byte(a), byte(b)})
		}
	}
	// all digit / near-digit pairs
	for a := '/'; a <= ':'; a++ {
		for b := '/'; b <= ':'; b++ {
			roundTrip(t, []byte{byte(a), byte(b)})
			roundTrip(t, []byte{byte(a), byte(b), byte(a)})
			roundTrip(t, []byte{'x', byte(a), byte(b)})
		}
	}
}

func TestLibDigits(t *testing.T) {
	digits := strings.Repeat("1234567890", 320)
	for n := 1; n <= 120; n++ {
		roundTrip(t, []byte(digits[:n]))
	}
	for _, n := range []int{121, 122, 407, 408, 1000, 1001, 2099, 2100, 3115, 3116} {
		roundTrip(t, []byte(digits[:n]))
	}
	// 3117 digits = 1559 codewords: too long
	roundTrip(t, []byte(digits[:3117]))
	roundTrip(t, []byte(digits[:3118]))
	for n := 1; n < 20; n++ {
		roundTrip(t, []byte(strings.Repeat("0", n)))
		roundTrip(t, []byte(strings.Repeat("9", n)))
	}
}

func TestLibMixed(t *testing.T) {
	for _, s := range []string{
		"Hello, World!", "a1", "1a", "a12", "a123", "12a", "123a", "1a2b3c", "12ab34cd56", "a1234b", "1 2", "00", "99", "09", "90",
		"\x00", "\x00\x00", "\x7f\x80", "\xff", "\xff\xff\xff", "1\x802", "12\x8034", "\x8012\x80", "\x80" + "1" + "\x80", "\xc3\xa9",
		"http://example.com/?q=12345&x=67", "ABCDEFGHIJKLMNOPQRSTUVWXYZabcdefghijklmnopqrstuvwxyz0123456789",
		"\x1d0101234567890128", "   ", "\t\r\n", "é", "日本語", "~!@#$%^&*()_+",
	} {
		roundTrip(t, []byte(s))
	}
}

func TestLibCapacityBoundaries(t *testing.T) {
	for idx, s := range Sizes {
		n := s.DataCodewords
		for variant := 0; variant < 8; variant++ {
			roundTrip(t, mkContent(n, variant+idx))   // exactly full
			roundTrip(t, mkContent(n+1, variant+idx)) // one over: next size (or error for 144x144)
			if n > 1 {
				roundTrip(t, mkContent(n-1, variant+idx)) // a single pad
			}
		}
		// pure fillers
		roundTrip(t, bytes.Repeat([]byte{'A'}, n))
		roundTrip(t, bytes.Repeat([]byte{'A'}, n+1))
		roundTrip(t, bytes.Repeat([]byte{'4', '2'}, n))
		roundTrip(t, append(bytes.Repeat([]byte{'4', '2'}, n), '7'))
		roundTrip(t, append([]byte{'x'}, bytes.Repeat([]byte{'4', '2'}, n-1)...))
		hi := bytes.Repeat([]byte{0xE9}, n/2)
		if n%2 == 1 {
			hi = append(hi, 'z')
		}
		roundTrip(t, hi)
		roundTrip(t, append(append([]byte{}, hi...), 'q'))
		// ends in an upper shifted byte exactly at the capacity
		if n >= 2 {
			roundTrip(t, append(bytes.Repeat([]byte{'B'}, n-2), 0xFF))
			// upper shift pair straddling the capacity: n-1 letters + high byte = n+1 cw
			roundTrip(t, append(bytes.Repeat([]byte{'B'}, n-1), 0x80))
		}
	}
}

func TestLibTooLong(t *testing.T) {
	for _, c := range [][]byte{
		bytes.Repeat([]byte{'A'}, 1559),
		bytes.Repeat([]byte{'A'}, 1560),
		bytes.Repeat([]byte{'A'}, 5000),
		bytes.Repeat([]byte{0x80}, 780),
		append(bytes.Repeat([]byte{'A'}, 1557), 0x80),
		mkContent(1559, 1), mkContent(1559, 2), mkContent(1560, 3),
	} {
		if n := RefEncodeLen(c); n <= 1558 {
			t.Fatalf("test bug: %d codewords", n)
		}
		roundTrip(t, c)
	}
	// and the largest accepted ones
	roundTrip(t, bytes.Repeat([]byte{'A'}, 1558))
	roundTrip(t, bytes.Repeat([]byte{0x80}, 779))
}

func TestLibEveryLength(t *testing.T) {
	if testing.Short() {
		t.Skip()
	}
	for n := 0; n <= 1560; n++ {
		roundTrip(t, mkContent(n, n))
	}
}

// ---------------------------------------------------------------------------
// (4) negative tests

func mustEncode(t testing.TB, content string, side int) *grid.Grid {
	g, err := encodeLib(t, []byte(content))
	if err != nil {
		t.Fatal(err)
	}
	if g.W != side {
		t.Fatalf("expected a %dx%d symbol, got %dx%d", side, side, g.W, g.H)
	}
	if _, err := Decode(g); err != nil {
		t.Fatalf("baseline does not decode: %v", err)
	}
	return g
}

func flipMustFail(t *testing.T, g *grid.Grid, x, y int, want string) {
	t.Helper()
	g.Set(x, y, !g.At(x, y))
	_, err := Decode(g)
	g.Set(x, y, !g.At(x, y))
	if err == nil {
		t.Errorf("flip (%d,%d): decode succeeded", x, y)
		return
	}
	if want != "" && !strings.Contains(err.Error(), want) {
		t.Errorf("flip (%d,%d): error %q does not mention %q", x, y, err, want)
	}
}

func TestNegativeFlips(t *testing.T) {
	g := mustEncode(t, "Hello, World!", 18)
	flipMustFail(t, g, 0, 5, "left solid finder")
	flipMustFail(t, g, 0, 0, "left solid finder")
	flipMustFail(t, g, 7, 17, "bottom solid finder")
	flipMustFail(t, g, 17, 17, "bottom solid finder")
	flipMustFail(t, g, 3, 0, "top clock")
	flipMustFail(t, g, 4, 0, "top clock")
	flipMustFail(t, g, 17, 0, "top clock")
	flipMustFail(t, g, 17, 6, "right clock")
	flipMustFail(t, g, 17, 7, "right clock")
	flipMustFail(t, g, 3, 3, "syndrome")
	flipMustFail(t, g, 16, 16, "syndrome")

	g = mustEncode(t, strings.Repeat("Data Matrix ", 4), 32) // 48 cw -> 32x32
	flipMustFail(t, g, 15, 5, "right clock")                 // right clock of region (0,0)
	flipMustFail(t, g, 15, 6, "right clock")
	flipMustFail(t, g, 16, 5, "left solid finder") // left finder of region (1,0)
	flipMustFail(t, g, 16, 20, "left solid finder")
	flipMustFail(t, g, 5, 15, "bottom solid finder") // bottom finder of region (0,0)
	flipMustFail(t, g, 20, 15, "bottom solid finder")
	flipMustFail(t, g, 5, 16, "top clock") // top clock of region (0,1)
	flipMustFail(t, g, 6, 16, "top clock")
	flipMustFail(t, g, 21, 16, "top clock")
	flipMustFail(t, g, 31, 16, "top clock")
	flipMustFail(t, g, 15, 15, "bottom solid finder")
	flipMustFail(t, g, 16, 16, "left solid finder")
	flipMustFail(t, g, 14, 14, "syndrome")
	flipMustFail(t, g, 17, 17, "syndrome")
}

// every single module flip of a symbol must be detected
func TestNegativeEveryModule(t *testing.T) {
	for _, c := range []struct {
		content string
		side    int
	}{
		{"A", 10}, {"ABCD", 12}, {"Hello, World", 16}, {strings.Repeat("x", 50), 32}, {strings.Repeat("y", 210), 64},
	} {
		g := mustEncode(t, c.content, c.side)
		for y := 0; y < g.H; y++ {
			for x := 0; x < g.W; x++ {
				flipMustFail(t, g, x, y, "")
			}
		}
	}
	// fixed pattern modules specifically (12x12: mapping 10x10 -> symbol modules 9..10)
	g := mustEncode(t, "ABCD", 12)
	for _, p := range [][2]int{{10, 10}, {9, 9}, {9, 10}, {10, 9}} {
		flipMustFail(t, g, p[0], p[1], "fixed pattern")
	}
}

func TestNegativeShape(t *testing.T) {
	for _, d := range [][2]int{{0, 0}, {10, 12}, {8, 8}, {11, 11}, {28, 28}, {30, 30}, {8, 18}, {146, 146}, {200, 200}} {
		if _, err := Decode(grid.New(d[0], d[1])); err == nil {
			t.Errorf("%dx%d accepted", d[0], d[1])
		}
	}
	if _, err := Decode(nil); err == nil {
		t.Error("nil accepted")
	}
	// all light / all dark grids of valid size
	for _, s := range Sizes {
		g := grid.New(s.Cols, s.Rows)
		if _, err := Decode(g); err == nil {
			t.Errorf("blank %dx%d accepted", s.Rows, s.Cols)
		}
		for i := range g.Bits {
			g.Bits[i] = true
		}
		if _, err := Decode(g); err == nil {
			t.Errorf("black %dx%d accepted", s.Rows, s.Cols)
		}
	}
}

// a symbol with the 144x144 ecc attached to the wrong blocks must fail
func TestNegativeInterleave(t *testing.T) {
	idx := 23
	cw := refCodewords(mkContent(1500, 7), idx)
	g := buildSymbol(t, idx, cw)
	res, err := Decode(g)
	if err != nil {
		t.Fatal(err)
	}
	// swap two ecc codewords of different blocks
	l, _ := getLayout(idx)
	e0, e1 := 1558+0, 1558+1
	if res.ECC[0] == res.ECC[1] {
		t.Skip("unlucky")
	}
	for bit := 0; bit < 8; bit++ {
		a, b := l.bitPos[e0*8+bit], l.bitPos[e1*8+bit]
		g.Bits[a], g.Bits[b] = g.Bits[b], g.Bits[a]
	}
	if _, err := Decode(g); err == nil {
		t.Error("swapped ecc codewords accepted")
	}
}

// ---------------------------------------------------------------------------

func TestConcurrent(t *testing.T) {
	var wg sync.WaitGroup
	for w := 0; w < 8; w++ {
		wg.Add(1)
		go func(w int) {
			defer wg.Done()
			for idx := range Sizes {
				content := mkContent(Sizes[idx].DataCodewords-w%2, w)
				g := buildSymbol(t, idx, refCodewords(content, idx))
				res, err := Decode(g)
				if err != nil || !bytes.Equal(res.Content, content) {
					t.Errorf("worker %d size %d: %v", w, idx, err)
				}
			}
		}(w)
	}
	wg.Wait()
}

func benchSize(b *testing.B, idx int) {
	s := Sizes[idx]
	g := buildSymbol(b, idx, refCodewords(mkContent(s.DataCodewords-1, 3), idx))
	if _, err := Decode(g); err != nil {
		b.Fatal(err)
	}
	b.ReportAllocs()
	b.ResetTimer()
	for i := 0; i < b.N; i++ {
		if _, err := Decode(g); err != nil {
			b.Fatal(err)
		}
	}
}

func BenchmarkDecode10(b *testing.B)  { benchSize(b, 0) }
func BenchmarkDecode18(b *testing.B)  { benchSize(b, 4) }
func BenchmarkDecode32(b *testing.B)  { benchSize(b, 9) }
func BenchmarkDecode52(b *testing.B)  { benchSize(b, 14) }
func BenchmarkDecode88(b *testing.B)  { benchSize(b, 18) }
func BenchmarkDecode144(b *testing.B) { benchSize(b, 23) }
