// Package dmdec is an independent, strict reference decoder for Data Matrix
// ECC 200 square symbols (ISO/IEC 16022). It is written from the standard
// (Table 7 symbol attributes, Annex F module placement, Annex E Reed-Solomon
// over GF(256)/0x12D, 5.2.3 ASCII encodation, 5.2.3.2 pad randomisation) and
// is the oracle for the datamatrix encoder under test.
//
// It never error-corrects: any deviation from the standard is an error.
package dmdec

import (
	"errors"
	"fmt"
	"sync"

	"verif/oracle/grid"
)

// Size is one row of ISO/IEC 16022 Table 7 (square symbols only).
type Size struct {
	Rows, Cols         int // symbol size including finder/clock borders
	RegionsH, RegionsV int // number of data regions horizontally / vertically
	DataCodewords      int
	ECCodewords        int
	Blocks             int // number of interleaved Reed-Solomon blocks
}

// Sizes lists the 24 square ECC 200 symbol sizes in ascending order.
var Sizes = []Size{
	{10, 10, 1, 1, 3, 5, 1},
	{12, 12, 1, 1, 5, 7, 1},
	{14, 14, 1, 1, 8, 10, 1},
	{16, 16, 1, 1, 12, 12, 1},
	{18, 18, 1, 1, 18, 14, 1},
	{20, 20, 1, 1, 22, 18, 1},
	{22, 22, 1, 1, 30, 20, 1},
	{24, 24, 1, 1, 36, 24, 1},
	{26, 26, 1, 1, 44, 28, 1},
	{32, 32, 2, 2, 62, 36, 1},
	{36, 36, 2, 2, 86, 42, 1},
	{40, 40, 2, 2, 114, 48, 1},
	{44, 44, 2, 2, 144, 56, 1},
	{48, 48, 2, 2, 174, 68, 1},
	{52, 52, 2, 2, 204, 84, 2},
	{64, 64, 4, 4, 280, 112, 2},
	{72, 72, 4, 4, 368, 144, 4},
	{80, 80, 4, 4, 456, 192, 4},
	{88, 88, 4, 4, 576, 224, 4},
	{96, 96, 4, 4, 696, 272, 4},
	{104, 104, 4, 4, 816, 336, 6},
	{120, 120, 6, 6, 1050, 408, 6},
	{132, 132, 6, 6, 1304, 496, 8},
	{144, 144, 6, 6, 1558, 620, 10},
}

// MaxDataCodewords is the data capacity of the largest symbol (144x144).
const MaxDataCodewords = 1558

// MappingRows is the height of the mapping matrix (symbol without borders).
func (s Size) MappingRows() int { return s.Rows - 2*s.RegionsV }

// MappingCols is the width of the mapping matrix (symbol without borders).
func (s Size) MappingCols() int { return s.Cols - 2*s.RegionsH }

// RegionRows is the height of one data region without its border.
func (s Size) RegionRows() int { return s.MappingRows() / s.RegionsV }

// RegionCols is the width of one data region without its border.
func (s Size) RegionCols() int { return s.MappingCols() / s.RegionsH }

// ECCPerBlock is the number of error correction codewords of every block.
func (s Size) ECCPerBlock() int { return s.ECCodewords / s.Blocks }

// DataInBlock is the number of data codewords of block b (0-based): block b
// holds data codewords b, b+B, b+2B, ... of the data stream.
func (s Size) DataInBlock(b int) int {
	n := s.DataCodewords / s.Blocks
	if b < s.DataCodewords%s.Blocks {
		n++
	}
	return n
}

// Result is a successfully decoded symbol.
type Result struct {
	Size         Size
	SizeIndex    int     // index into Sizes
	Content      []byte  // decoded bytes
	Codewords    []byte  // all data codewords in stream order, including pads
	ECC          []byte  // all error correction codewords in stream order
	DataUsed     int     // number of data codewords before the first pad
	PadCodewords int     // DataCodewords - DataUsed
	CornerCases  [4]bool // Annex F corner cases 1..4 used by this size
	FixedPattern bool    // fixed lower-right 2x2 pattern present in this size
}

// SizeFor returns the index of the smallest size holding n data codewords.
func SizeFor(ncodewords int) (idx int, ok bool) {
	if ncodewords < 0 {
		return 0, false
	}
	for i := range Sizes {
		if Sizes[i].DataCodewords >= ncodewords {
			return i, true
		}
	}
	return 0, false
}

// RefEncodeLen is the length in codewords of the standard ASCII encodation of
// content: two consecutive ASCII digits take one codeword (greedy from the
// left, which is optimal for digit runs), a byte >= 128 takes two (upper
// shift + value), everything else takes one.
func RefEncodeLen(content []byte) int {
	n := 0
	for i := 0; i < len(content); {
		c := content[i]
		switch {
		case isDigit(c) && i+1 < len(content) && isDigit(content[i+1]):
			n++
			i += 2
		case c >= 128:
			n += 2
			i++
		default:
			n++
			i++
		}
	}
	return n
}

func isDigit(c byte) bool { return c >= '0' && c <= '9' }

// PadCodeword returns the codeword that must stand at 1-based position pos of
// the data stream when it is a pad codeword other than the first pad (253
// state randomisation of the value 129).
func PadCodeword(pos int) byte {
	t := 129 + (149*pos)%253 + 1
	if t > 254 {
		t -= 254
	}
	return byte(t)
}

// ---------------------------------------------------------------------------
// GF(256), primitive polynomial x^8+x^5+x^3+x^2+1 (0x12D), alpha = 2.

const gfPoly = 0x12D

var (
	gfExp [510]byte
	gfLog [256]int
	// gfMulAlpha[i][v] = v * alpha^i for i = 0..maxECCPerBlock
	gfMulAlpha [maxECCPerBlock + 1][256]byte
)

const maxECCPerBlock = 68

func init() {
	x := 1
	for i := 0; i < 255; i++ {
		gfExp[i] = byte(x)
		gfLog[x] = i
		x <<= 1
		if x&0x100 != 0 {
			x ^= gfPoly
		}
	}
	for i := 255; i < len(gfExp); i++ {
		gfExp[i] = gfExp[i-255]
	}
	for i := 0; i <= maxECCPerBlock; i++ {
		for v := 1; v < 256; v++ {
			gfMulAlpha[i][v] = gfExp[gfLog[v]+i]
		}
	}
}

func gfMul(a, b byte) byte {
	if a == 0 || b == 0 {
		return 0
	}
	return gfExp[gfLog[a]+gfLog[b]]
}

// ---------------------------------------------------------------------------
// Annex F module placement.

// Placement is the result of running the Annex F algorithm for a mapping
// matrix of NRow x NCol modules.
type Placement struct {
	NRow, NCol int
	// Cell[r*NCol+c] is 0 for a module not assigned to any codeword, otherwise
	// cw*8 + (bit-1) with cw the 1-based codeword number and bit 1..8 (1=MSB).
	Cell        []int32
	NCodewords  int     // number of codewords placed
	CornerCases [4]bool // corner cases 1..4 that were triggered
	Fixed       bool    // lower-right 2x2 fixed pattern needed
	Unassigned  int     // modules not belonging to any codeword
}

type placer struct {
	nrow, ncol int
	cell       []int32
	err        error
}

func (p *placer) module(row, col, chr, bit int) {
	if row < 0 {
		row += p.nrow
		col += 4 - ((p.nrow + 4) % 8)
	}
	if col < 0 {
		col += p.ncol
		row += 4 - ((p.ncol + 4) % 8)
	}
	if row < 0 || row >= p.nrow || col < 0 || col >= p.ncol {
		if p.err == nil {
			p.err = fmt.Errorf("placement: codeword %d bit %d falls outside the mapping matrix at (%d,%d)", chr, bit, row, col)
		}
		return
	}
	i := row*p.ncol + col
	if p.cell[i] != 0 {
		if p.err == nil {
			p.err = fmt.Errorf("placement: module (%d,%d) assigned twice (codeword %d bit %d, then codeword %d bit %d)",
				row, col, p.cell[i]>>3, p.cell[i]&7+1, chr, bit)
		}
		return
	}
	p.cell[i] = int32(chr*8 + bit - 1)
}

func (p *placer) utah(row, col, chr int) {
	p.module(row-2, col-2, chr, 1)
	p.module(row-2, col-1, chr, 2)
	p.module(row-1, col-2, chr, 3)
	p.module(row-1, col-1, chr, 4)
	p.module(row-1, col, chr, 5)
	p.module(row, col-2, chr, 6)
	p.module(row, col-1, chr, 7)
	p.module(row, col, chr, 8)
}

func (p *placer) corner1(chr int) {
	p.module(p.nrow-1, 0, chr, 1)
	p.module(p.nrow-1, 1, chr, 2)
	p.module(p.nrow-1, 2, chr, 3)
	p.module(0, p.ncol-2, chr, 4)
	p.module(0, p.ncol-1, chr, 5)
	p.module(1, p.ncol-1, chr, 6)
	p.module(2, p.ncol-1, chr, 7)
	p.module(3, p.ncol-1, chr, 8)
}

func (p *placer) corner2(chr int) {
	p.module(p.nrow-3, 0, chr, 1)
	p.module(p.nrow-2, 0, chr, 2)
	p.module(p.nrow-1, 0, chr, 3)
	p.module(0, p.ncol-4, chr, 4)
	p.module(0, p.ncol-3, chr, 5)
	p.module(0, p.ncol-2, chr, 6)
	p.module(0, p.ncol-1, chr, 7)
	p.module(1, p.ncol-1, chr, 8)
}

func (p *placer) corner3(chr int) {
	p.module(p.nrow-3, 0, chr, 1)
	p.module(p.nrow-2, 0, chr, 2)
	p.module(p.nrow-1, 0, chr, 3)
	p.module(0, p.ncol-2, chr, 4)
	p.module(0, p.ncol-1, chr, 5)
	p.module(1, p.ncol-1, chr, 6)
	p.module(2, p.ncol-1, chr, 7)
	p.module(3, p.ncol-1, chr, 8)
}

func (p *placer) corner4(chr int) {
	p.module(p.nrow-1, 0, chr, 1)
	p.module(p.nrow-1, p.ncol-1, chr, 2)
	p.module(0, p.ncol-3, chr, 3)
	p.module(0, p.ncol-2, chr, 4)
	p.module(0, p.ncol-1, chr, 5)
	p.module(1, p.ncol-3, chr, 6)
	p.module(1, p.ncol-2, chr, 7)
	p.module(1, p.ncol-1, chr, 8)
}

// ComputePlacement runs the ISO/IEC 16022 Annex F placement algorithm for an
// nrow x ncol mapping matrix and validates the outcome: no module assigned
// twice, every placed codeword has its 8 bits, and the only modules left
// unassigned are the four of the lower-right fixed pattern (if any).
func ComputePlacement(nrow, ncol int) (*Placement, error) {
	if nrow < 6 || ncol < 6 || nrow%2 != 0 || ncol%2 != 0 {
		return nil, fmt.Errorf("placement: invalid mapping matrix %dx%d", nrow, ncol)
	}
	p := &placer{nrow: nrow, ncol: ncol, cell: make([]int32, nrow*ncol)}
	out := &Placement{NRow: nrow, NCol: ncol}

	chr := 1
	row, col := 4, 0
	for {
		// the four corner cases
		if row == nrow && col == 0 {
			p.corner1(chr)
			chr++
			out.CornerCases[0] = true
		}
		if row == nrow-2 && col == 0 && ncol%4 != 0 {
			p.corner2(chr)
			chr++
			out.CornerCases[1] = true
		}
		if row == nrow-2 && col == 0 && ncol%8 == 4 {
			p.corner3(chr)
			chr++
			out.CornerCases[2] = true
		}
		if row == nrow+4 && col == 2 && ncol%8 == 0 {
			p.corner4(chr)
			chr++
			out.CornerCases[3] = true
		}
		// sweep upward diagonally to the right
		for {
			if row < nrow && col >= 0 && p.cell[row*ncol+col] == 0 {
				p.utah(row, col, chr)
				chr++
			}
			row -= 2
			col += 2
			if !(row >= 0 && col < ncol) {
				break
			}
		}
		row++
		col += 3
		// sweep downward diagonally to the left
		for {
			if row >= 0 && col < ncol && p.cell[row*ncol+col] == 0 {
				p.utah(row, col, chr)
				chr++
			}
			row += 2
			col -= 2
			if !(row < nrow && col >= 0) {
				break
			}
		}
		row += 3
		col++
		if !(row < nrow || col < ncol) {
			break
		}
	}
	if p.err != nil {
		return nil, p.err
	}
	out.Cell = p.cell
	out.NCodewords = chr - 1

	// fixed pattern in the lower right corner
	if p.cell[nrow*ncol-1] == 0 {
		out.Fixed = true
	}

	// validation
	seen := make([]uint8, out.NCodewords+1)
	for i, v := range p.cell {
		if v == 0 {
			out.Unassigned++
			r, c := i/ncol, i%ncol
			inFixed := (r == nrow-1 || r == nrow-2) && (c == ncol-1 || c == ncol-2)
			if !out.Fixed || !inFixed {
				return nil, fmt.Errorf("placement %dx%d: module (%d,%d) is not assigned to any codeword", nrow, ncol, r, c)
			}
			continue
		}
		cw, bit := int(v>>3), uint(v&7)
		if cw < 1 || cw > out.NCodewords {
			return nil, fmt.Errorf("placement %dx%d: bad codeword number %d", nrow, ncol, cw)
		}
		if seen[cw]&(1<<bit) != 0 {
			return nil, fmt.Errorf("placement %dx%d: codeword %d bit %d placed twice", nrow, ncol, cw, bit+1)
		}
		seen[cw] |= 1 << bit
	}
	for cw := 1; cw <= out.NCodewords; cw++ {
		if seen[cw] != 0xFF {
			return nil, fmt.Errorf("placement %dx%d: codeword %d incomplete (bit mask %08b)", nrow, ncol, cw, seen[cw])
		}
	}
	if out.Fixed && out.Unassigned != 4 {
		return nil, fmt.Errorf("placement %dx%d: fixed pattern needed but %d modules unassigned", nrow, ncol, out.Unassigned)
	}
	if !out.Fixed && out.Unassigned != 0 {
		return nil, fmt.Errorf("placement %dx%d: %d modules unassigned without fixed pattern", nrow, ncol, out.Unassigned)
	}
	if out.NCodewords*8+out.Unassigned != nrow*ncol {
		return nil, fmt.Errorf("placement %dx%d: %d codewords + %d spare modules do not fill the matrix", nrow, ncol, out.NCodewords, out.Unassigned)
	}
	return out, nil
}

// ---------------------------------------------------------------------------
// Per-size cached layout: where in the symbol grid every codeword bit and every
// border module lives.

type layout struct {
	once sync.Once
	err  error

	size Size
	idx  int
	side int

	bitPos     []int32 // [cw*8+bit] -> index into grid.Bits (bit 0 = MSB)
	mustDark   []int32 // border (and fixed pattern) modules that must be dark
	mustLight  []int32 // border (and fixed pattern) modules that must be light
	fixedDark  [2]int32
	fixedLight [2]int32
	corners    [4]bool
	fixed      bool
}

var (
	layouts     [24]layout
	sideToIndex [145]int8
)

func init() {
	for i := range sideToIndex {
		sideToIndex[i] = -1
	}
	for i, s := range Sizes {
		sideToIndex[s.Rows] = int8(i)
	}
}

// symXY maps mapping matrix coordinates to symbol coordinates.
func (s Size) symXY(r, c int) (x, y int) {
	rr, rc := s.RegionRows(), s.RegionCols()
	return c + 2*(c/rc) + 1, r + 2*(r/rr) + 1
}

func getLayout(idx int) (*layout, error) {
	l := &layouts[idx]
	l.once.Do(func() { l.build(idx) })
	return l, l.err
}

func (l *layout) build(idx int) {
	s := Sizes[idx]
	l.size, l.idx, l.side = s, idx, s.Rows
	if s.Rows != s.Cols {
		l.err = fmt.Errorf("size %d is not square", idx)
		return
	}
	nrow, ncol := s.MappingRows(), s.MappingCols()
	if nrow%s.RegionsV != 0 || ncol%s.RegionsH != 0 {
		l.err = fmt.Errorf("size %dx%d: mapping matrix not divisible into regions", s.Rows, s.Cols)
		return
	}
	pl, err := ComputePlacement(nrow, ncol)
	if err != nil {
		l.err = err
		return
	}
	total := s.DataCodewords + s.ECCodewords
	if pl.NCodewords != total {
		l.err = fmt.Errorf("size %dx%d: placement yields %d codewords, table says %d+%d", s.Rows, s.Cols, pl.NCodewords, s.DataCodewords, s.ECCodewords)
		return
	}
	if s.ECCodewords%s.Blocks != 0 || s.ECCPerBlock() > maxECCPerBlock {
		l.err = fmt.Errorf("size %dx%d: bad ecc/block configuration", s.Rows, s.Cols)
		return
	}
	l.corners, l.fixed = pl.CornerCases, pl.Fixed
	W := s.Cols
	l.bitPos = make([]int32, total*8)
	for i, v := range pl.Cell {
		if v == 0 {
			continue
		}
		r, c := i/ncol, i%ncol
		x, y := s.symXY(r, c)
		cw, bit := int(v>>3)-1, int(v&7)
		l.bitPos[cw*8+bit] = int32(y*W + x)
	}
	// region borders
	rh, rw := s.RegionRows()+2, s.RegionCols()+2
	for ry := 0; ry < s.RegionsV; ry++ {
		for rx := 0; rx < s.RegionsH; rx++ {
			x0, y0 := rx*rw, ry*rh
			// left column: solid dark
			for dy := 0; dy < rh; dy++ {
				l.mustDark = append(l.mustDark, int32((y0+dy)*W+x0))
			}
			// bottom row: solid dark (corner already listed)
			for dx := 1; dx < rw; dx++ {
				l.mustDark = append(l.mustDark, int32((y0+rh-1)*W+x0+dx))
			}
			// top row: alternating, dark at even offsets (offset 0 is the L corner)
			for dx := 1; dx < rw; dx++ {
				i := int32(y0*W + x0 + dx)
				if dx%2 == 0 {
					l.mustDark = append(l.mustDark, i)
				} else {
					l.mustLight = append(l.mustLight, i)
				}
			}
			// right column: alternating, light at the top (offset 0, listed
			// above), dark at odd offsets, ending dark at the bottom (listed above)
			for dy := 1; dy < rh-1; dy++ {
				i := int32((y0+dy)*W + x0 + rw - 1)
				if dy%2 == 1 {
					l.mustDark = append(l.mustDark, i)
				} else {
					l.mustLight = append(l.mustLight, i)
				}
			}
		}
	}
	if l.fixed {
		at := func(r, c int) int32 { x, y := s.symXY(r, c); return int32(y*W + x) }
		l.fixedDark = [2]int32{at(nrow-1, ncol-1), at(nrow-2, ncol-2)}
		l.fixedLight = [2]int32{at(nrow-1, ncol-2), at(nrow-2, ncol-1)}
	}
}

// describeBorder explains which border element grid index i belongs to.
func (l *layout) describeBorder(i int32) string {
	s := l.size
	x, y := int(i)%s.Cols, int(i)/s.Cols
	rh, rw := s.RegionRows()+2, s.RegionCols()+2
	rx, ry := x/rw, y/rh
	dx, dy := x%rw, y%rh
	var what string
	switch {
	case dx == 0:
		what = "left solid finder column"
	case dy == rh-1:
		what = "bottom solid finder row"
	case dy == 0:
		what = "top clock track"
	case dx == rw-1:
		what = "right clock track"
	default:
		what = "interior?"
	}
	return fmt.Sprintf("module x=%d y=%d (%s of data region col %d row %d)", x, y, what, rx, ry)
}

// ---------------------------------------------------------------------------

// Decode strictly decodes a square ECC 200 symbol. The grid must be exactly
// the symbol (no quiet zone).
func Decode(g *grid.Grid) (*Result, error) {
	if g == nil {
		return nil, errors.New("dmdec: nil grid")
	}
	if g.W != g.H {
		return nil, fmt.Errorf("dmdec: symbol is not square: %dx%d", g.W, g.H)
	}
	if g.W < 0 || g.W >= len(sideToIndex) || sideToIndex[g.W] < 0 {
		return nil, fmt.Errorf("dmdec: %dx%d is not a square ECC 200 symbol size", g.W, g.H)
	}
	if len(g.Bits) != g.W*g.H {
		return nil, fmt.Errorf("dmdec: grid has %d modules, want %d", len(g.Bits), g.W*g.H)
	}
	idx := int(sideToIndex[g.W])
	l, err := getLayout(idx)
	if err != nil {
		return nil, fmt.Errorf("dmdec: internal: %v", err)
	}
	bits := g.Bits
	s := l.size

	// finder pattern and clock tracks of every data region
	for _, i := range l.mustDark {
		if !bits[i] {
			return nil, fmt.Errorf("dmdec: %dx%d: %s must be dark but is light", s.Rows, s.Cols, l.describeBorder(i))
		}
	}
	for _, i := range l.mustLight {
		if bits[i] {
			return nil, fmt.Errorf("dmdec: %dx%d: %s must be light but is dark", s.Rows, s.Cols, l.describeBorder(i))
		}
	}
	// fixed pattern in the lower right corner of the mapping matrix
	if l.fixed {
		for _, i := range l.fixedDark {
			if !bits[i] {
				return nil, fmt.Errorf("dmdec: %dx%d: fixed pattern module x=%d y=%d must be dark", s.Rows, s.Cols, int(i)%s.Cols, int(i)/s.Cols)
			}
		}
		for _, i := range l.fixedLight {
			if bits[i] {
				return nil, fmt.Errorf("dmdec: %dx%d: fixed pattern module x=%d y=%d must be light", s.Rows, s.Cols, int(i)%s.Cols, int(i)/s.Cols)
			}
		}
	}

	// read the codewords
	total := s.DataCodewords + s.ECCodewords
	all := make([]byte, total)
	bp := l.bitPos
	for k := 0; k < total; k++ {
		p := bp[k*8 : k*8+8 : k*8+8]
		var v byte
		if bits[p[0]] {
			v |= 0x80
		}
		if bits[p[1]] {
			v |= 0x40
		}
		if bits[p[2]] {
			v |= 0x20
		}
		if bits[p[3]] {
			v |= 0x10
		}
		if bits[p[4]] {
			v |= 0x08
		}
		if bits[p[5]] {
			v |= 0x04
		}
		if bits[p[6]] {
			v |= 0x02
		}
		if bits[p[7]] {
			v |= 0x01
		}
		all[k] = v
	}
	data, ecc := all[:s.DataCodewords:s.DataCodewords], all[s.DataCodewords:]

	// Reed-Solomon: all syndromes of all blocks must vanish
	if err := checkSyndromes(s, data, ecc); err != nil {
		return nil, err
	}

	res := &Result{
		Size:         s,
		SizeIndex:    idx,
		Codewords:    data,
		ECC:          ecc,
		CornerCases:  l.corners,
		FixedPattern: l.fixed,
	}
	if err := decodeASCII(res, data); err != nil {
		return nil, err
	}
	return res, nil
}

// checkSyndromes verifies S_i = C(alpha^i) = 0 for i = 1..necc for every
// interleaved block. Block b consists of data codewords b, b+B, ... followed by
// ecc codewords b, b+B, ...; the first codeword is the highest order coefficient.
func checkSyndromes(s Size, data, ecc []byte) error {
	B := s.Blocks
	necc := s.ECCPerBlock()
	var syn [maxECCPerBlock]byte
	for b := 0; b < B; b++ {
		sy := syn[:necc]
		for i := range sy {
			sy[i] = 0
		}
		for k := b; k < len(data); k += B {
			c := data[k]
			for i := range sy {
				sy[i] = gfMulAlpha[i+1][sy[i]] ^ c
			}
		}
		for k := b; k < len(ecc); k += B {
			c := ecc[k]
			for i := range sy {
				sy[i] = gfMulAlpha[i+1][sy[i]] ^ c
			}
		}
		for i := range sy {
			if sy[i] != 0 {
				return fmt.Errorf("dmdec: %dx%d: Reed-Solomon block %d of %d: syndrome S%d = %#02x, not zero (symbol is not a valid codeword; no error correction is applied)",
					s.Rows, s.Cols, b+1, B, i+1, sy[i])
			}
		}
	}
	return nil
}

// decodeASCII decodes the data codewords under pure ASCII encodation.
func decodeASCII(res *Result, data []byte) error {
	s := res.Size
	n := len(data)
	out := make([]byte, 0, 2*n)
	i := 0
	padAt := -1
loop:
	for i < n {
		c := data[i]
		switch {
		case c >= 1 && c <= 128:
			out = append(out, c-1)
			i++
		case c == 129:
			padAt = i
			break loop
		case c >= 130 && c <= 229:
			v := c - 130
			out = append(out, '0'+v/10, '0'+v%10)
			i++
		case c == 235:
			if i+1 >= n {
				return fmt.Errorf("dmdec: %dx%d: upper shift (235) is the last data codeword (position %d)", s.Rows, s.Cols, i+1)
			}
			d := data[i+1]
			if d < 1 || d > 128 {
				return fmt.Errorf("dmdec: %dx%d: upper shift at position %d followed by codeword %d, want 1..128", s.Rows, s.Cols, i+1, d)
			}
			out = append(out, d-1+128)
			i += 2
		default:
			return fmt.Errorf("dmdec: %dx%d: data codeword %d at position %d is not allowed in pure ASCII encodation (%s)",
				s.Rows, s.Cols, c, i+1, codewordName(c))
		}
	}
	if padAt >= 0 {
		for j := padAt + 1; j < n; j++ {
			if want := PadCodeword(j + 1); data[j] != want {
				return fmt.Errorf("dmdec: %dx%d: pad codeword at position %d is %d, want 253-state randomised pad %d (first pad at position %d)",
					s.Rows, s.Cols, j+1, data[j], want, padAt+1)
			}
		}
		res.DataUsed = padAt
	} else {
		res.DataUsed = n
	}
	res.PadCodewords = n - res.DataUsed
	res.Content = out
	return nil
}

func codewordName(c byte) string {
	switch c {
	case 0:
		return "0 is not a codeword value used by any encodation"
	case 230:
		return "latch to C40"
	case 231:
		return "latch to Base 256"
	case 232:
		return "FNC1"
	case 233:
		return "structured append"
	case 234:
		return "reader programming"
	case 236:
		return "05 macro"
	case 237:
		return "06 macro"
	case 238:
		return "latch to ANSI X12"
	case 239:
		return "latch to Text"
	case 240:
		return "latch to EDIFACT"
	case 241:
		return "ECI"
	case 254:
		return "unlatch, not valid in ASCII encodation"
	}
	if c >= 242 {
		return "not to be used in ASCII encodation"
	}
	return "unexpected"
}
