// Package qrdec is a strict, non-correcting reference decoder for QR Code
// symbols (ISO/IEC 18004, model 2, versions 1..40). It is written from the
// standard and is used as the oracle of a verification harness: it accepts a
// module grid only if every function pattern, the format and version
// information, every Reed-Solomon block, the segment syntax, the terminator
// and the padding are exactly as the standard prescribes. It never corrects
// errors.
//
// Coordinates are (x, y) = (column, row) with the origin at the top-left
// module. Levels are the logical levels 0=L 1=M 2=Q 3=H.
package qrdec

import (
	"fmt"
	"sync"

	"verif/oracle/grid"
)

// Mode indicators of the supported modes.
const (
	ModeNumeric      = 1
	ModeAlphanumeric = 2
	ModeByte         = 4
)

// AlphanumericCharset is the 45-character set of alphanumeric mode in value order.
const AlphanumericCharset = "0123456789ABCDEFGHIJKLMNOPQRSTUVWXYZ $%*+-./:"

// Segment is one decoded data segment.
type Segment struct {
	Mode  int // 1 numeric, 2 alphanumeric, 4 byte
	Count int // character count
}

// Result is the outcome of a successful strict decode.
type Result struct {
	Version        int // 1..40
	Level          int // 0=L 1=M 2=Q 3=H
	Mask           int // 0..7
	Content        []byte
	Segments       []Segment
	Blocks         int // number of RS blocks
	ECPerBlock     int // check codewords per block
	DataCodewords  int // total data codewords
	TotalCodewords int
	TerminatorBits int // number of terminator zero bits found (0..4)
	PadCodewords   int // number of 0xEC/0x11 pad codewords
}

// Error is returned by Decode. Stage names the part of the symbol that is
// wrong: "size", "finder", "separator", "timing", "alignment", "darkmodule",
// "format", "version", "remainder", "rs", "data".
type Error struct {
	Stage string
	Msg   string
}

func (e *Error) Error() string { return "qrdec: " + e.Stage + ": " + e.Msg }

func errf(stage, format string, args ...interface{}) error {
	return &Error{Stage: stage, Msg: fmt.Sprintf(format, args...)}
}

// ---------------------------------------------------------------------------
// Tables and pure functions of (version, level, mode)

func validVL(version, level int) bool {
	return version >= 1 && version <= 40 && level >= 0 && level <= 3
}

// BlockLayout returns ISO Table 9 for a version and level: group 1 (shorter
// blocks, first) and group 2 (one more data codeword each), and the number of
// error correction codewords per block. All zero for invalid arguments.
func BlockLayout(version, level int) (g1Blocks, g1Data, g2Blocks, g2Data, ecPerBlock int) {
	if !validVL(version, level) {
		return 0, 0, 0, 0, 0
	}
	r := &rsBlockTable[version-1][level]
	g1Blocks, g1Data = r[0], r[2]
	ecPerBlock = r[1] - r[2]
	g2Blocks, g2Data = r[3], r[5]
	return
}

// DataCodewords returns the number of data codewords of a version and level.
func DataCodewords(version, level int) int {
	b1, d1, b2, d2, _ := BlockLayout(version, level)
	return b1*d1 + b2*d2
}

// TotalCodewords returns the number of codewords (data + ec) of a version
// according to the block table (level L row; all levels agree, see tests).
func TotalCodewords(version int) int {
	if version < 1 || version > 40 {
		return 0
	}
	r := &rsBlockTable[version-1][0]
	return r[0]*r[1] + r[3]*r[4]
}

// CountBits returns the width of the character count indicator.
func CountBits(mode, version int) int {
	var w [3]int
	switch mode {
	case ModeNumeric:
		w = [3]int{10, 12, 14}
	case ModeAlphanumeric:
		w = [3]int{9, 11, 13}
	case ModeByte:
		w = [3]int{8, 16, 16}
	default:
		return 0
	}
	switch {
	case version < 1 || version > 40:
		return 0
	case version <= 9:
		return w[0]
	case version <= 26:
		return w[1]
	default:
		return w[2]
	}
}

// PayloadBits returns the number of data bits of nchars characters in a mode
// (without mode and count indicators); -1 for an unsupported mode.
func PayloadBits(mode, nchars int) int {
	switch mode {
	case ModeNumeric:
		b := 10 * (nchars / 3)
		switch nchars % 3 {
		case 1:
			b += 4
		case 2:
			b += 7
		}
		return b
	case ModeAlphanumeric:
		return 11*(nchars/2) + 6*(nchars%2)
	case ModeByte:
		return 8 * nchars
	}
	return -1
}

// SegmentBits returns 4 + CountBits + payload bits of one segment.
func SegmentBits(mode, nchars, version int) int {
	p := PayloadBits(mode, nchars)
	cb := CountBits(mode, version)
	if p < 0 || cb == 0 {
		return -1
	}
	return 4 + cb + p
}

// MinVersion returns the smallest version whose data capacity at the given
// level holds a single segment of nchars characters; 0 if none.
func MinVersion(mode, level, nchars int) int {
	if level < 0 || level > 3 || nchars < 0 || PayloadBits(mode, nchars) < 0 {
		return 0
	}
	for v := 1; v <= 40; v++ {
		if nchars >= 1<<uint(CountBits(mode, v)) {
			continue
		}
		if 8*DataCodewords(v, level) >= SegmentBits(mode, nchars, v) {
			return v
		}
	}
	return 0
}

// levelFormatBits maps the logical level to the 2-bit indicator (L=01 M=00 Q=11 H=10).
var levelFormatBits = [4]uint16{1, 0, 3, 2}

// formatBitsLevel is the inverse of levelFormatBits.
var formatBitsLevel = [4]int{1, 0, 3, 2}

// FormatWord computes the 15 bit format information incl. BCH(15,5) remainder
// (generator 0x537) and the 0x5412 XOR mask. Returns 0 for invalid arguments.
func FormatWord(level, mask int) uint16 {
	if level < 0 || level > 3 || mask < 0 || mask > 7 {
		return 0
	}
	data := uint32(levelFormatBits[level])<<3 | uint32(mask)
	rem := data
	for i := 0; i < 10; i++ {
		rem <<= 1
		if rem&(1<<10) != 0 {
			rem ^= 0x537
		}
	}
	return uint16((data<<10 | rem) ^ 0x5412)
}

// VersionWord computes the 18 bit version information, BCH(18,6) with
// generator 0x1F25. Returns 0 for versions without version information.
func VersionWord(version int) uint32 {
	if version < 7 || version > 40 {
		return 0
	}
	rem := uint32(version)
	for i := 0; i < 12; i++ {
		rem <<= 1
		if rem&(1<<12) != 0 {
			rem ^= 0x1F25
		}
	}
	return uint32(version)<<12 | rem
}

// polyRem returns the remainder of val (nbits wide) divided by the generator
// gen (of degree deg) over GF(2).
func polyRem(val uint32, nbits int, gen uint32, deg int) uint32 {
	for i := nbits - 1; i >= deg; i-- {
		if val>>uint(i)&1 != 0 {
			val ^= gen << uint(i-deg)
		}
	}
	return val
}

// AlignmentCenters returns the Annex E centre coordinates (a fresh slice).
func AlignmentCenters(version int) []int {
	if version < 1 || version > 40 {
		return nil
	}
	return append([]int(nil), alignmentTable[version-1]...)
}

// MaskBit reports whether mask pattern `mask` inverts the module at column x, row y.
func MaskBit(mask, x, y int) bool {
	i, j := y, x
	switch mask {
	case 0:
		return (i+j)%2 == 0
	case 1:
		return i%2 == 0
	case 2:
		return j%3 == 0
	case 3:
		return (i+j)%3 == 0
	case 4:
		return (i/2+j/3)%2 == 0
	case 5:
		return (i*j)%2+(i*j)%3 == 0
	case 6:
		return ((i*j)%2+(i*j)%3)%2 == 0
	case 7:
		return ((i+j)%2+(i*j)%3)%2 == 0
	}
	return false
}

// ---------------------------------------------------------------------------
// Per-version geometry, built lazily once.

// Module kinds of the layout map.
const (
	KindData = iota // encoding region (data, ec, remainder bits)
	KindFinder
	KindSeparator
	KindTiming
	KindAlignment
	KindDarkModule
	KindFormat
	KindVersion
)

var kindNames = [...]string{"data", "finder", "separator", "timing", "alignment", "darkmodule", "format", "version"}

// KindName returns the name of a module kind.
func KindName(k int) string {
	if k < 0 || k >= len(kindNames) {
		return "?"
	}
	return kindNames[k]
}

type fixedMod struct {
	idx  int32
	dark bool
	kind uint8
}

type verInfo struct {
	version, size int
	kind          []uint8    // layout map, size*size
	fixed         []fixedMod // modules with a prescribed value
	order         []int32    // encoding-region module indices in placement order
	nCodewords    int
	remainder     int
	maskCW        [8][]byte // mask pattern sampled along order, packed MSB first
	maskRem       [8]uint8  // mask bits of the remainder modules (MSB first, right aligned)
	fmt1, fmt2    [15]int32 // index of format bit i (0 = LSB) in each copy
	ver1, ver2    [18]int32 // index of version bit i: top-right block, bottom-left block
}

var (
	verOnce  [41]sync.Once
	verTable [41]*verInfo
)

func getVersion(v int) *verInfo {
	verOnce[v].Do(func() { verTable[v] = buildVersion(v) })
	return verTable[v]
}

func buildVersion(v int) *verInfo {
	size := 17 + 4*v
	vi := &verInfo{version: v, size: size}
	kind := make([]uint8, size*size)
	val := make([]bool, size*size)
	set := func(x, y int, k uint8, dark bool) {
		kind[y*size+x] = k
		val[y*size+x] = dark
	}

	// Timing patterns: row 6 and column 6 between the separators, dark on even coordinates.
	for t := 8; t <= size-9; t++ {
		set(t, 6, KindTiming, t%2 == 0)
		set(6, t, KindTiming, t%2 == 0)
	}

	// Finder patterns (7x7: dark ring, light ring, 3x3 dark core) with their
	// one-module light separators; corners at (0,0), (size-7,0), (0,size-7).
	finder := func(ox, oy int) {
		for dy := -1; dy <= 7; dy++ {
			for dx := -1; dx <= 7; dx++ {
				x, y := ox+dx, oy+dy
				if x < 0 || y < 0 || x >= size || y >= size {
					continue
				}
				if dx < 0 || dx > 6 || dy < 0 || dy > 6 {
					set(x, y, KindSeparator, false)
					continue
				}
				// Chebyshev distance from the centre (3,3): 0,1 dark; 2 light; 3 dark.
				d := dx - 3
				if d < 0 {
					d = -d
				}
				e := dy - 3
				if e < 0 {
					e = -e
				}
				if e > d {
					d = e
				}
				set(x, y, KindFinder, d != 2)
			}
		}
	}
	finder(0, 0)
	finder(size-7, 0)
	finder(0, size-7)

	// Alignment patterns: 5x5 around every pair of Annex E coordinates except
	// the three that would overlap the finder patterns.
	ac := alignmentTable[v-1]
	n := len(ac)
	for a := 0; a < n; a++ {
		for b := 0; b < n; b++ {
			if (a == 0 && b == 0) || (a == 0 && b == n-1) || (a == n-1 && b == 0) {
				continue
			}
			cx, cy := ac[a], ac[b]
			for dy := -2; dy <= 2; dy++ {
				for dx := -2; dx <= 2; dx++ {
					// dark centre, light ring at distance 1, dark ring at distance 2
					d := max(max(dx, -dx), max(dy, -dy))
					set(cx+dx, cy+dy, KindAlignment, d != 1)
				}
			}
		}
	}

	// Format information (ISO Figure 25). Bit 14 is the most significant bit.
	// Copy 1 around the top-left finder: bits 0..5 at (8,0..5), bit 6 at (8,7),
	// bit 7 at (8,8), bit 8 at (7,8), bits 9..14 at (5..0, 8).
	for i := 0; i <= 5; i++ {
		vi.fmt1[i] = int32(i*size + 8)
	}
	vi.fmt1[6] = int32(7*size + 8)
	vi.fmt1[7] = int32(8*size + 8)
	vi.fmt1[8] = int32(8*size + 7)
	for i := 9; i <= 14; i++ {
		vi.fmt1[i] = int32(8*size + (14 - i))
	}
	// Copy 2: bits 0..7 at (size-1..size-8, 8), bits 8..14 at (8, size-7..size-1).
	for i := 0; i <= 7; i++ {
		vi.fmt2[i] = int32(8*size + (size - 1 - i))
	}
	for i := 8; i <= 14; i++ {
		vi.fmt2[i] = int32((size-15+i)*size + 8)
	}
	for i := 0; i < 15; i++ {
		kind[vi.fmt1[i]] = KindFormat
		kind[vi.fmt2[i]] = KindFormat
	}
	// The module above the second copy's vertical part is always dark.
	set(8, size-8, KindDarkModule, true)

	// Version information (v >= 7): bit i (0 = LSB) at row i/3, column
	// size-11+i%3 (top right, 3 wide x 6 high) and transposed (bottom left).
	if v >= 7 {
		for i := 0; i < 18; i++ {
			a, b := size-11+i%3, i/3
			vi.ver1[i] = int32(b*size + a)
			vi.ver2[i] = int32(a*size + b)
			kind[vi.ver1[i]] = KindVersion
			kind[vi.ver2[i]] = KindVersion
		}
	}

	for idx, k := range kind {
		switch k {
		case KindFinder, KindSeparator, KindTiming, KindAlignment, KindDarkModule:
			vi.fixed = append(vi.fixed, fixedMod{int32(idx), val[idx], k})
		}
	}

	// Placement order: two-module wide columns from the right edge, alternately
	// upwards and downwards, right module before left module, skipping column 6.
	up := true
	for right := size - 1; right >= 1; right -= 2 {
		if right == 6 {
			right = 5
		}
		for k := 0; k < size; k++ {
			y := k
			if up {
				y = size - 1 - k
			}
			for j := 0; j < 2; j++ {
				x := right - j
				if kind[y*size+x] == KindData {
					vi.order = append(vi.order, int32(y*size+x))
				}
			}
		}
		up = !up
	}
	vi.nCodewords = len(vi.order) / 8
	vi.remainder = len(vi.order) % 8

	for m := 0; m < 8; m++ {
		cw := make([]byte, vi.nCodewords)
		for c := 0; c < vi.nCodewords; c++ {
			var b byte
			for k := 0; k < 8; k++ {
				idx := int(vi.order[c*8+k])
				b <<= 1
				if MaskBit(m, idx%size, idx/size) {
					b |= 1
				}
			}
			cw[c] = b
		}
		vi.maskCW[m] = cw
		var r uint8
		for k := 0; k < vi.remainder; k++ {
			idx := int(vi.order[vi.nCodewords*8+k])
			r <<= 1
			if MaskBit(m, idx%size, idx/size) {
				r |= 1
			}
		}
		vi.maskRem[m] = r
	}
	vi.kind = kind
	return vi
}

// ModuleKind returns the layout kind (KindData, KindFinder, ...) of a module.
func ModuleKind(version, x, y int) int {
	if version < 1 || version > 40 {
		return -1
	}
	vi := getVersion(version)
	if x < 0 || y < 0 || x >= vi.size || y >= vi.size {
		return -1
	}
	return int(vi.kind[y*vi.size+x])
}

// RawCodewords returns the number of whole codewords that fit into the
// encoding region of a version, computed from the function pattern layout.
func RawCodewords(version int) int {
	if version < 1 || version > 40 {
		return 0
	}
	return getVersion(version).nCodewords
}

// RemainderBits returns the number of remainder bits of a version, computed
// from the function pattern layout.
func RemainderBits(version int) int {
	if version < 1 || version > 40 {
		return 0
	}
	return getVersion(version).remainder
}

// PlacementOrder returns the (x, y) coordinates of the encoding region in bit
// placement order (codeword bits MSB first, then the remainder bits).
func PlacementOrder(version int) [][2]int {
	if version < 1 || version > 40 {
		return nil
	}
	vi := getVersion(version)
	out := make([][2]int, len(vi.order))
	for i, idx := range vi.order {
		out[i] = [2]int{int(idx) % vi.size, int(idx) / vi.size}
	}
	return out
}

// ---------------------------------------------------------------------------
// GF(256), polynomial x^8+x^4+x^3+x^2+1 (0x11D), generator alpha = 2.

var (
	gfOnce   sync.Once
	gfMul    *[256][256]byte
	gfAlphaP [32]byte // alpha^i
)

func gfInit() {
	gfOnce.Do(func() {
		t := new([256][256]byte)
		for a := 0; a < 256; a++ {
			// row a: t[a][b] = a*b. Build by shift-and-add.
			for b := 0; b < 256; b++ {
				var p, aa, bb = 0, a, b
				for bb != 0 {
					if bb&1 != 0 {
						p ^= aa
					}
					aa <<= 1
					if aa&0x100 != 0 {
						aa ^= 0x11D
					}
					bb >>= 1
				}
				t[a][b] = byte(p)
			}
		}
		x := 1
		for i := range gfAlphaP {
			gfAlphaP[i] = byte(x)
			x <<= 1
			if x&0x100 != 0 {
				x ^= 0x11D
			}
		}
		gfMul = t
	})
}

// ---------------------------------------------------------------------------
// Decode

type scratch struct {
	raw  []byte
	data []byte
}

var scratchPool = sync.Pool{New: func() interface{} {
	return &scratch{raw: make([]byte, 0, 3706), data: make([]byte, 0, 2956)}
}}

// Decode strictly decodes a module grid (true = dark, no quiet zone).
func Decode(g *grid.Grid) (*Result, error) {
	if g == nil {
		return nil, errf("size", "nil grid")
	}
	if g.W != g.H {
		return nil, errf("size", "symbol is not square: %dx%d", g.W, g.H)
	}
	size := g.W
	if size < 21 || size > 177 || (size-17)%4 != 0 {
		return nil, errf("size", "size %d is not 17+4v for a version v in 1..40", size)
	}
	if len(g.Bits) != size*size {
		return nil, errf("size", "grid has %d modules, want %d", len(g.Bits), size*size)
	}
	v := (size - 17) / 4
	vi := getVersion(v)
	bits := g.Bits

	// 1. Function patterns.
	for i := range vi.fixed {
		f := &vi.fixed[i]
		if bits[f.idx] != f.dark {
			x, y := int(f.idx)%size, int(f.idx)/size
			return nil, errf(kindNames[f.kind], "version %d: %s module at (x=%d,y=%d) is %s, must be %s",
				v, kindNames[f.kind], x, y, darkName(bits[f.idx]), darkName(f.dark))
		}
	}

	// 2. Format information.
	var f1, f2 uint32
	for i := 14; i >= 0; i-- {
		f1 <<= 1
		f2 <<= 1
		if bits[vi.fmt1[i]] {
			f1 |= 1
		}
		if bits[vi.fmt2[i]] {
			f2 |= 1
		}
	}
	if f1 != f2 {
		return nil, errf("format", "the two copies of the format information differ: top-left %015b, split copy %015b", f1, f2)
	}
	fw := f1 ^ 0x5412
	if r := polyRem(fw, 15, 0x537, 10); r != 0 {
		return nil, errf("format", "format information %015b (unmasked %015b) is not a BCH(15,5) codeword (remainder %010b)", f1, fw, r)
	}
	level := formatBitsLevel[fw>>13&3]
	mask := int(fw >> 10 & 7)

	// 3. Version information.
	if v >= 7 {
		var v1, v2 uint32
		for i := 17; i >= 0; i-- {
			v1 <<= 1
			v2 <<= 1
			if bits[vi.ver1[i]] {
				v1 |= 1
			}
			if bits[vi.ver2[i]] {
				v2 |= 1
			}
		}
		if v1 != v2 {
			return nil, errf("version", "the two copies of the version information differ: top-right %018b, bottom-left %018b", v1, v2)
		}
		if r := polyRem(v1, 18, 0x1F25, 12); r != 0 {
			return nil, errf("version", "version information %018b is not a BCH(18,6) codeword (remainder %012b)", v1, r)
		}
		if int(v1>>12) != v {
			return nil, errf("version", "version information says version %d but the symbol size %d is version %d", v1>>12, size, v)
		}
	}

	// 4. Codewords in placement order, unmasked.
	g1b, g1d, g2b, g2d, ec := BlockLayout(v, level)
	nBlocks := g1b + g2b
	nData := g1b*g1d + g2b*g2d
	nTotal := nData + nBlocks*ec
	if nTotal != vi.nCodewords {
		return nil, errf("rs", "internal: block table of version %d level %d has %d codewords, symbol holds %d", v, level, nTotal, vi.nCodewords)
	}
	sc := scratchPool.Get().(*scratch)
	defer scratchPool.Put(sc)
	raw := sc.raw[:nTotal]
	order := vi.order
	mcw := vi.maskCW[mask]
	for c := 0; c < nTotal; c++ {
		o := order[c*8 : c*8+8 : c*8+8]
		var b byte
		if bits[o[0]] {
			b |= 0x80
		}
		if bits[o[1]] {
			b |= 0x40
		}
		if bits[o[2]] {
			b |= 0x20
		}
		if bits[o[3]] {
			b |= 0x10
		}
		if bits[o[4]] {
			b |= 0x08
		}
		if bits[o[5]] {
			b |= 0x04
		}
		if bits[o[6]] {
			b |= 0x02
		}
		if bits[o[7]] {
			b |= 0x01
		}
		raw[c] = b ^ mcw[c]
	}
	if vi.remainder > 0 {
		var r uint8
		for k := 0; k < vi.remainder; k++ {
			r <<= 1
			if bits[order[nTotal*8+k]] {
				r |= 1
			}
		}
		r ^= vi.maskRem[mask]
		if r != 0 {
			for k := 0; k < vi.remainder; k++ {
				if r>>uint(vi.remainder-1-k)&1 != 0 {
					idx := int(order[nTotal*8+k])
					return nil, errf("remainder", "version %d mask %d: remainder bit %d of %d at (x=%d,y=%d) is 1 after unmasking, must be 0",
						v, mask, k, vi.remainder, idx%size, idx/size)
				}
			}
		}
	}

	// 5. De-interleave and check every Reed-Solomon block.
	gfInit()
	data := sc.data[:nData]
	var ecBuf [32]byte
	if ec > len(ecBuf) {
		return nil, errf("rs", "internal: %d ec codewords per block", ec)
	}
	off := 0
	for b := 0; b < nBlocks; b++ {
		blk := data[off : off+g1d]
		for j := 0; j < g1d; j++ {
			blk[j] = raw[j*nBlocks+b]
		}
		n := g1d
		if b >= g1b {
			n = g2d
			blk = data[off : off+n]
			blk[g1d] = raw[g1d*nBlocks+(b-g1b)]
		}
		for k := 0; k < ec; k++ {
			ecBuf[k] = raw[nData+k*nBlocks+b]
		}
		ecw := ecBuf[:ec]
		for i := 0; i < ec; i++ {
			row := &gfMul[gfAlphaP[i]]
			var s byte
			for _, c := range blk {
				s = row[s] ^ c
			}
			for _, c := range ecw {
				s = row[s] ^ c
			}
			if s != 0 {
				return nil, errf("rs", "version %d level %s mask %d: block %d of %d (%d data + %d ec codewords): syndrome S%d = 0x%02X, must be 0",
					v, LevelName(level), mask, b, nBlocks, n, ec, i, s)
			}
		}
		off += n
	}

	// 6. Parse the data bit stream.
	res := &Result{
		Version:        v,
		Level:          level,
		Mask:           mask,
		Blocks:         nBlocks,
		ECPerBlock:     ec,
		DataCodewords:  nData,
		TotalCodewords: nTotal,
	}
	if err := parseData(data, v, res); err != nil {
		return nil, err
	}
	return res, nil
}

func darkName(d bool) string {
	if d {
		return "dark"
	}
	return "light"
}

// LevelName returns "L", "M", "Q" or "H".
func LevelName(level int) string {
	if level < 0 || level > 3 {
		return "?"
	}
	return "LMQH"[level : level+1]
}

type bitReader struct {
	data []byte
	pos  int // bit position
	n    int // total bits
}

// read returns the next k (<= 16) bits MSB first; the caller checks availability.
func (r *bitReader) read(k int) int {
	v := 0
	p := r.pos
	for k > 0 {
		avail := 8 - p&7
		take := avail
		if take > k {
			take = k
		}
		b := int(r.data[p>>3]) >> uint(avail-take) & (1<<uint(take) - 1)
		v = v<<uint(take) | b
		p += take
		k -= take
	}
	r.pos = p
	return v
}

func parseData(data []byte, version int, res *Result) error {
	r := bitReader{data: data, n: len(data) * 8}
	content := make([]byte, 0, len(data))
	for {
		left := r.n - r.pos
		if left < 4 {
			// Truncated terminator: whatever is left must be zero.
			at := r.pos
			if left > 0 {
				if t := r.read(left); t != 0 {
					return errf("data", "bit %d: %d bits remain after the last segment, they must be a (truncated) terminator of zeros but are %0*b", at, left, left, t)
				}
			}
			res.TerminatorBits = left
			res.Content = content
			return nil
		}
		at := r.pos
		mode := r.read(4)
		if mode == 0 {
			res.TerminatorBits = 4
			break
		}
		if mode != ModeNumeric && mode != ModeAlphanumeric && mode != ModeByte {
			return errf("data", "bit %d: unsupported or invalid mode indicator %04b", at, mode)
		}
		cb := CountBits(mode, version)
		if r.n-r.pos < cb {
			return errf("data", "bit %d: mode %04b: character count indicator (%d bits) runs past the data capacity (%d bits)", at, mode, cb, r.n)
		}
		count := r.read(cb)
		need := PayloadBits(mode, count)
		if r.n-r.pos < need {
			return errf("data", "bit %d: mode %04b count %d needs %d payload bits, only %d remain", at, mode, count, need, r.n-r.pos)
		}
		switch mode {
		case ModeNumeric:
			k := count
			for ; k >= 3; k -= 3 {
				p := r.pos
				d := r.read(10)
				if d > 999 {
					return errf("data", "bit %d: numeric 3-digit group has value %d > 999", p, d)
				}
				content = append(content, byte('0'+d/100), byte('0'+d/10%10), byte('0'+d%10))
			}
			if k == 2 {
				p := r.pos
				d := r.read(7)
				if d > 99 {
					return errf("data", "bit %d: numeric 2-digit group has value %d > 99", p, d)
				}
				content = append(content, byte('0'+d/10), byte('0'+d%10))
			} else if k == 1 {
				p := r.pos
				d := r.read(4)
				if d > 9 {
					return errf("data", "bit %d: numeric 1-digit group has value %d > 9", p, d)
				}
				content = append(content, byte('0'+d))
			}
		case ModeAlphanumeric:
			k := count
			for ; k >= 2; k -= 2 {
				p := r.pos
				d := r.read(11)
				if d >= 45*45 {
					return errf("data", "bit %d: alphanumeric pair has value %d >= 2025", p, d)
				}
				content = append(content, AlphanumericCharset[d/45], AlphanumericCharset[d%45])
			}
			if k == 1 {
				p := r.pos
				d := r.read(6)
				if d >= 45 {
					return errf("data", "bit %d: alphanumeric single character has value %d >= 45", p, d)
				}
				content = append(content, AlphanumericCharset[d])
			}
		case ModeByte:
			if r.pos&7 == 0 {
				content = append(content, data[r.pos>>3:r.pos>>3+count]...)
				r.pos += 8 * count
			} else {
				for k := 0; k < count; k++ {
					content = append(content, byte(r.read(8)))
				}
			}
		}
		res.Segments = append(res.Segments, Segment{Mode: mode, Count: count})
	}

	// Terminator 0000 was read. Zero bits up to the codeword boundary.
	if fill := (8 - r.pos&7) & 7; fill > 0 {
		at := r.pos
		if t := r.read(fill); t != 0 {
			return errf("data", "bit %d: the %d bits between the terminator and the codeword boundary must be zero but are %0*b", at, fill, fill, t)
		}
	}
	// Pad codewords 0xEC, 0x11 alternating.
	pads := data[r.pos>>3:]
	for i, c := range pads {
		want := byte(0xEC)
		if i&1 == 1 {
			want = 0x11
		}
		if c != want {
			return errf("data", "data codeword %d: pad codeword %d is 0x%02X, must be 0x%02X", r.pos>>3+i, i, c, want)
		}
	}
	res.PadCodewords = len(pads)
	res.Content = content
	return nil
}
