package qrdec

import (
	"bytes"
	"fmt"
	"image/color"
	"math/rand"
	"strings"
	"sync"
	"testing"
	"time"

	"github.com/boombuler/barcode/qr"

	"verif/oracle/grid"
)

// ---------------------------------------------------------------------------
// (1) Table invariants

// rawModulesFormula is the closed form of the number of encoding-region
// modules (independent of the layout map built in buildVersion).
func rawModulesFormula(v int) int {
	size := 17 + 4*v
	n := size * size
	n -= 3 * 64          // finders + separators
	n -= 2*15 + 1        // format information + dark module
	n -= 2 * (size - 16) // timing
	if v >= 2 {
		a := v/7 + 2
		n -= (a*a - 3) * 25  // alignment patterns
		n += 2 * (a - 2) * 5 // overlap of alignment patterns with the timing patterns
	}
	if v >= 7 {
		n -= 36
	}
	return n
}

func TestBlockTableInvariants(t *testing.T) {
	wantRemainder := func(v int) int {
		switch {
		case v == 1:
			return 0
		case v <= 6:
			return 7
		case v <= 13:
			return 0
		case v <= 20:
			return 3
		case v <= 27:
			return 4
		case v <= 34:
			return 3
		}
		return 0
	}
	for v := 1; v <= 40; v++ {
		raw := RawCodewords(v)
		if got := rawModulesFormula(v); got != raw*8+RemainderBits(v) {
			t.Errorf("v%d: layout map has %d data modules, formula says %d", v, raw*8+RemainderBits(v), got)
		}
		if RemainderBits(v) != wantRemainder(v) {
			t.Errorf("v%d: remainder bits %d, want %d", v, RemainderBits(v), wantRemainder(v))
		}
		if len(PlacementOrder(v)) != raw*8+RemainderBits(v) {
			t.Errorf("v%d: placement order length", v)
		}
		prevData := 1 << 30
		for l := 0; l < 4; l++ {
			r := rsBlockTable[v-1][l]
			total := r[0]*r[1] + r[3]*r[4]
			if total != raw {
				t.Errorf("v%d-%s: block table sums to %d codewords, geometric capacity is %d", v, LevelName(l), total, raw)
			}
			if r[0] <= 0 || r[1] <= r[2] || r[2] <= 0 {
				t.Errorf("v%d-%s: bad group 1 %v", v, LevelName(l), r)
			}
			if r[3] != 0 {
				if r[1]-r[2] != r[4]-r[5] {
					t.Errorf("v%d-%s: ec per block differs between groups: %v", v, LevelName(l), r)
				}
				if r[4] != r[1]+1 || r[5] != r[2]+1 {
					t.Errorf("v%d-%s: group 2 must be exactly one codeword longer: %v", v, LevelName(l), r)
				}
			} else if r[4] != 0 || r[5] != 0 {
				t.Errorf("v%d-%s: empty group 2 with sizes %v", v, LevelName(l), r)
			}
			ec := r[1] - r[2]
			if ec < 7 || ec > 30 {
				t.Errorf("v%d-%s: ec per block %d out of range", v, LevelName(l), ec)
			}
			g1b, g1d, g2b, g2d, e := BlockLayout(v, l)
			if g1b != r[0] || g1d != r[2] || g2b != r[3] || g2d != r[5] || e != ec {
				t.Errorf("v%d-%s: BlockLayout disagrees with table", v, LevelName(l))
			}
			d := DataCodewords(v, l)
			if d != g1b*g1d+g2b*g2d || d+(g1b+g2b)*e != raw {
				t.Errorf("v%d-%s: DataCodewords %d inconsistent", v, LevelName(l), d)
			}
			if d >= prevData {
				t.Errorf("v%d-%s: data capacity %d not below the lower level's %d", v, LevelName(l), d, prevData)
			}
			prevData = d
			if v > 1 && d <= DataCodewords(v-1, l) {
				t.Errorf("v%d-%s: data capacity not increasing with version", v, LevelName(l))
			}
		}
		if TotalCodewords(v) != raw {
			t.Errorf("v%d: TotalCodewords", v)
		}
	}
	// Spot values from ISO Table 7 / Table 9.
	spot := []struct{ v, l, data int }{
		{1, 0, 19}, {1, 1, 16}, {1, 2, 13}, {1, 3, 9},
		{7, 2, 88}, {15, 3, 223}, {27, 1, 1128}, {40, 0, 2956}, {40, 1, 2334}, {40, 2, 1666}, {40, 3, 1276},
	}
	for _, s := range spot {
		if got := DataCodewords(s.v, s.l); got != s.data {
			t.Errorf("DataCodewords(%d,%s) = %d, want %d", s.v, LevelName(s.l), got, s.data)
		}
	}
	if g1b, g1d, g2b, g2d, ec := BlockLayout(15, 3); g1b != 11 || g1d != 12 || g2b != 7 || g2d != 13 || ec != 24 {
		t.Errorf("15-H row wrong: %d %d %d %d %d", g1b, g1d, g2b, g2d, ec)
	}
	if RawCodewords(1) != 26 || RawCodewords(40) != 3706 || RawCodewords(7) != 196 {
		t.Errorf("raw codewords: v1=%d v7=%d v40=%d", RawCodewords(1), RawCodewords(7), RawCodewords(40))
	}
}

// alignmentFormula is the well known generating rule of Annex E
// (independent cross check of the literal table).
func alignmentFormula(v int) []int {
	if v == 1 {
		return []int{}
	}
	n := v/7 + 2
	step := 26
	if v != 32 {
		step = (v*4 + n*2 + 1) / (n*2 - 2) * 2
	}
	res := make([]int, n)
	res[0] = 6
	pos := v*4 + 10
	for i := n - 1; i >= 1; i-- {
		res[i] = pos
		pos -= step
	}
	return res
}

func TestAlignmentTable(t *testing.T) {
	for v := 1; v <= 40; v++ {
		got := AlignmentCenters(v)
		want := alignmentFormula(v)
		if fmt.Sprint(got) != fmt.Sprint(want) {
			t.Errorf("v%d: table %v, formula %v", v, got, want)
		}
		if v >= 2 {
			size := 17 + 4*v
			if got[0] != 6 || got[len(got)-1] != size-7 {
				t.Errorf("v%d: first/last centre %v", v, got)
			}
			for i := 1; i < len(got); i++ {
				if got[i] <= got[i-1] || got[i]%2 != 0 {
					t.Errorf("v%d: centres not increasing/even: %v", v, got)
				}
			}
			// equal spacing except possibly the first gap
			for i := 3; i < len(got); i++ {
				if got[i]-got[i-1] != got[2]-got[1] {
					t.Errorf("v%d: uneven spacing %v", v, got)
				}
			}
		}
	}
	if fmt.Sprint(AlignmentCenters(7)) != "[6 22 38]" || fmt.Sprint(AlignmentCenters(40)) != "[6 30 58 86 114 142 170]" ||
		fmt.Sprint(AlignmentCenters(32)) != "[6 34 60 86 112 138]" {
		t.Error("spot values")
	}
}

// ---------------------------------------------------------------------------
// (2) Format / version words

func TestFormatVersionWords(t *testing.T) {
	f := []struct {
		level, mask int
		want        string
	}{
		{0, 0, "111011111000100"},
		{0, 7, "110100101110110"},
		{1, 0, "101010000010010"},
		{1, 5, "100000011001110"}, // ISO example (M, mask 101)
		{1, 7, "100101010100000"},
		{2, 0, "011010101011111"},
		{2, 3, "011101000000110"},
		{3, 0, "001011010001001"},
		{3, 7, "000100000111011"},
	}
	for _, c := range f {
		got := fmt.Sprintf("%015b", FormatWord(c.level, c.mask))
		if got != c.want {
			t.Errorf("FormatWord(%s,%d) = %s, want %s", LevelName(c.level), c.mask, got, c.want)
		}
	}
	seen := map[uint16]bool{}
	for l := 0; l < 4; l++ {
		for m := 0; m < 8; m++ {
			w := FormatWord(l, m)
			if seen[w] {
				t.Errorf("duplicate format word %015b", w)
			}
			seen[w] = true
			u := uint32(w) ^ 0x5412
			if polyRem(u, 15, 0x537, 10) != 0 {
				t.Errorf("FormatWord(%d,%d) not a codeword", l, m)
			}
			if int(u>>10&7) != m || formatBitsLevel[u>>13] != l {
				t.Errorf("FormatWord(%d,%d) data bits wrong", l, m)
			}
			// minimum distance 7 against all others
			for l2 := 0; l2 < 4; l2++ {
				for m2 := 0; m2 < 8; m2++ {
					if l2 == l && m2 == m {
						continue
					}
					if d := popcount(uint32(w ^ FormatWord(l2, m2))); d < 7 {
						t.Errorf("format words (%d,%d)/(%d,%d) distance %d", l, m, l2, m2, d)
					}
				}
			}
		}
	}
	v := []struct {
		v    int
		want string
	}{
		{7, "000111110010010100"},
		{8, "001000010110111100"},
		{40, "101000110001101001"},
	}
	for _, c := range v {
		if got := fmt.Sprintf("%018b", VersionWord(c.v)); got != c.want {
			t.Errorf("VersionWord(%d) = %s, want %s", c.v, got, c.want)
		}
	}
	if VersionWord(7) != 0x07C94 || VersionWord(40) != 0x28C69 || VersionWord(6) != 0 {
		t.Errorf("VersionWord hex spot values")
	}
	for a := 7; a <= 40; a++ {
		if polyRem(VersionWord(a), 18, 0x1F25, 12) != 0 || int(VersionWord(a)>>12) != a {
			t.Errorf("VersionWord(%d) invalid", a)
		}
		for b := a + 1; b <= 40; b++ {
			if d := popcount(VersionWord(a) ^ VersionWord(b)); d < 8 {
				t.Errorf("version words %d/%d distance %d", a, b, d)
			}
		}
	}
}

func popcount(x uint32) int {
	n := 0
	for ; x != 0; x &= x - 1 {
		n++
	}
	return n
}

func TestCountBitsAndSegmentBits(t *testing.T) {
	if CountBits(1, 9) != 10 || CountBits(1, 10) != 12 || CountBits(1, 27) != 14 ||
		CountBits(2, 1) != 9 || CountBits(2, 26) != 11 || CountBits(2, 40) != 13 ||
		CountBits(4, 9) != 8 || CountBits(4, 10) != 16 || CountBits(4, 40) != 16 || CountBits(8, 1) != 0 {
		t.Error("CountBits")
	}
	if SegmentBits(1, 8, 1) != 4+10+27 || SegmentBits(2, 5, 1) != 4+9+28 || SegmentBits(4, 3, 10) != 4+16+24 {
		t.Error("SegmentBits")
	}
	// ISO Table 7 capacities (numeric, alphanumeric, byte).
	caps := []struct{ v, l, num, alnum, byt int }{
		{1, 0, 41, 25, 17}, {1, 3, 17, 10, 7}, {2, 1, 63, 38, 26},
		{9, 0, 552, 335, 230}, {10, 0, 652, 395, 271}, {10, 3, 288, 174, 119},
		{26, 1, 2544, 1542, 1059}, {27, 2, 1933, 1172, 805},
		{40, 0, 7089, 4296, 2953}, {40, 3, 3057, 1852, 1273},
	}
	for _, c := range caps {
		for i, mode := range []int{1, 2, 4} {
			n := []int{c.num, c.alnum, c.byt}[i]
			if MinVersion(mode, c.l, n) != c.v {
				t.Errorf("MinVersion(mode %d, %s, %d) = %d, want %d", mode, LevelName(c.l), n, MinVersion(mode, c.l, n), c.v)
			}
			if got := MinVersion(mode, c.l, n+1); got != c.v+1 && !(c.v == 40 && got == 0) {
				t.Errorf("MinVersion(mode %d, %s, %d) = %d, want %d", mode, LevelName(c.l), n+1, got, c.v+1)
			}
		}
	}
	if MinVersion(1, 0, 0) != 1 || MinVersion(4, 3, 1274) != 0 {
		t.Error("MinVersion edge")
	}
}

// ---------------------------------------------------------------------------
// A small test-side encoder (shares the tables with the decoder; it is used
// for syntax-level tests of Decode, not as independent evidence).

type bitWriter struct {
	buf []byte
	n   int
}

func (w *bitWriter) put(v, k int) {
	for i := k - 1; i >= 0; i-- {
		if w.n&7 == 0 {
			w.buf = append(w.buf, 0)
		}
		if v>>uint(i)&1 != 0 {
			w.buf[w.n>>3] |= 0x80 >> uint(w.n&7)
		}
		w.n++
	}
}

func rsRemainder(data []byte, ec int) []byte {
	gfInit()
	// g(x) = prod_{i<ec} (x - alpha^i), coefficients high to low without the leading 1
	gen := make([]byte, ec)
	gen[ec-1] = 1
	for i := 0; i < ec; i++ {
		root := gfAlphaP[i]
		for j := 0; j < ec; j++ {
			gen[j] = gfMul[gen[j]][root]
			if j+1 < ec {
				gen[j] ^= gen[j+1]
			}
		}
	}
	rem := make([]byte, ec)
	for _, d := range data {
		f := d ^ rem[0]
		copy(rem, rem[1:])
		rem[ec-1] = 0
		for j := 0; j < ec; j++ {
			rem[j] ^= gfMul[gen[j]][f]
		}
	}
	return rem
}

// buildSymbol draws a complete symbol from data codewords.
func buildSymbol(t testing.TB, version, level, mask int, data []byte) *grid.Grid {
	if len(data) != DataCodewords(version, level) {
		t.Fatalf("buildSymbol: %d data codewords, want %d", len(data), DataCodewords(version, level))
	}
	g1b, g1d, g2b, g2d, ec := BlockLayout(version, level)
	nb := g1b + g2b
	blocks := make([][]byte, nb)
	ecs := make([][]byte, nb)
	off := 0
	for b := 0; b < nb; b++ {
		n := g1d
		if b >= g1b {
			n = g2d
		}
		blocks[b] = data[off : off+n]
		ecs[b] = rsRemainder(blocks[b], ec)
		off += n
	}
	var seq []byte
	for j := 0; j < g1d+1; j++ {
		for b := 0; b < nb; b++ {
			if j < len(blocks[b]) {
				seq = append(seq, blocks[b][j])
			}
		}
	}
	_ = g2d
	for j := 0; j < ec; j++ {
		for b := 0; b < nb; b++ {
			seq = append(seq, ecs[b][j])
		}
	}
	vi := getVersion(version)
	size := vi.size
	g := grid.New(size, size)
	for _, f := range vi.fixed {
		g.Bits[f.idx] = f.dark
	}
	fw := FormatWord(level, mask)
	for i := 0; i < 15; i++ {
		bit := fw>>uint(i)&1 != 0
		g.Bits[vi.fmt1[i]] = bit
		g.Bits[vi.fmt2[i]] = bit
	}
	if version >= 7 {
		vw := VersionWord(version)
		for i := 0; i < 18; i++ {
			bit := vw>>uint(i)&1 != 0
			g.Bits[vi.ver1[i]] = bit
			g.Bits[vi.ver2[i]] = bit
		}
	}
	for i, idx := range vi.order {
		bit := false
		if i < len(seq)*8 {
			bit = seq[i>>3]>>uint(7-i&7)&1 != 0
		}
		x, y := int(idx)%size, int(idx)/size
		if MaskBit(mask, x, y) {
			bit = !bit
		}
		g.Bits[idx] = bit
	}
	return g
}

// padTo completes a bit stream with terminator and pad codewords.
func padTo(w *bitWriter, ncw int) []byte {
	capBits := ncw * 8
	term := 4
	if capBits-w.n < 4 {
		term = capBits - w.n
	}
	w.put(0, term)
	for w.n&7 != 0 {
		w.put(0, 1)
	}
	for i := 0; len(w.buf) < ncw; i++ {
		if i&1 == 0 {
			w.buf = append(w.buf, 0xEC)
		} else {
			w.buf = append(w.buf, 0x11)
		}
	}
	return w.buf
}

// The worked example of the standard: "01234567" as version 1-M.
func TestISOExample(t *testing.T) {
	data := []byte{0x10, 0x20, 0x0C, 0x56, 0x61, 0x80, 0xEC, 0x11, 0xEC, 0x11, 0xEC, 0x11, 0xEC, 0x11, 0xEC, 0x11}
	ecWant := []byte{0xA5, 0x24, 0xD4, 0xC1, 0xED, 0x36, 0xC7, 0x87, 0x2C, 0x55}
	// the published codewords must have zero syndromes under our field conventions
	gfInit()
	all := append(append([]byte{}, data...), ecWant...)
	for i := 0; i < 10; i++ {
		var s byte
		for _, c := range all {
			s = gfMul[s][gfAlphaP[i]] ^ c
		}
		if s != 0 {
			t.Fatalf("ISO example: syndrome %d = %02X", i, s)
		}
	}
	if got := rsRemainder(data, 10); !bytes.Equal(got, ecWant) {
		t.Fatalf("rsRemainder = %X, want %X", got, ecWant)
	}
	w := &bitWriter{}
	w.put(1, 4)
	w.put(8, 10)
	w.put(12, 10)
	w.put(345, 10)
	w.put(67, 7)
	if got := padTo(w, 16); !bytes.Equal(got, data) {
		t.Fatalf("bit stream %X, want %X", got, data)
	}
	for mask := 0; mask < 8; mask++ {
		g := buildSymbol(t, 1, 1, mask, data)
		r, err := Decode(g)
		if err != nil {
			t.Fatalf("mask %d: %v", mask, err)
		}
		if string(r.Content) != "01234567" || r.Version != 1 || r.Level != 1 || r.Mask != mask ||
			len(r.Segments) != 1 || r.Segments[0] != (Segment{1, 8}) || r.TerminatorBits != 4 || r.PadCodewords != 10 ||
			r.Blocks != 1 || r.ECPerBlock != 10 || r.DataCodewords != 16 || r.TotalCodewords != 26 {
			t.Fatalf("mask %d: %+v", mask, r)
		}
	}
	// Compare against the library for the very same message (mask is the library's choice).
	gl := encodeLib(t, "01234567", qr.M, qr.Numeric)
	r, err := Decode(gl)
	if err != nil {
		t.Fatal(err)
	}
	gm := buildSymbol(t, 1, 1, r.Mask, data)
	if gm.String() != gl.String() {
		t.Errorf("library symbol for 01234567 1-M differs from the reference construction:\nlib:\n%sref:\n%s", gl, gm)
	}
}

// Syntax level tests on synthetic symbols.
func TestDataSyntax(t *testing.T) {
	type tc struct {
		name    string
		version int
		level   int
		build   func(w *bitWriter, ncw int) []byte
		wantErr string // substring; empty = must decode
		check   func(r *Result) string
	}
	fill := func(w *bitWriter, ncw int) []byte { return padTo(w, ncw) }
	cases := []tc{
		{"empty message", 1, 0, func(w *bitWriter, n int) []byte { return fill(w, n) }, "",
			func(r *Result) string {
				if len(r.Content) != 0 || len(r.Segments) != 0 || r.TerminatorBits != 4 || r.PadCodewords != 18 {
					return fmt.Sprintf("%+v", r)
				}
				return ""
			}},
		{"mixed segments", 2, 1, func(w *bitWriter, n int) []byte {
			w.put(1, 4)
			w.put(4, 10)
			w.put(7, 10) // "007"
			w.put(9, 4)  // "9"
			w.put(2, 4)
			w.put(3, 9)
			w.put(10*45+44, 11) // "A:"
			w.put(36, 6)        // " "
			w.put(4, 4)
			w.put(3, 8)
			w.put(0x00, 8)
			w.put(0xFF, 8)
			w.put(0xC3, 8)
			return fill(w, n)
		}, "", func(r *Result) string {
			if string(r.Content) != "0079A: \x00\xff\xc3" || len(r.Segments) != 3 ||
				r.Segments[0] != (Segment{1, 4}) || r.Segments[1] != (Segment{2, 3}) || r.Segments[2] != (Segment{4, 3}) {
				return fmt.Sprintf("%q %+v", r.Content, r.Segments)
			}
			return ""
		}},
		{"full capacity, no terminator", 1, 0, func(w *bitWriter, n int) []byte {
			w.put(4, 4)
			w.put(17, 8)
			for i := 0; i < 17; i++ {
				w.put(i*13, 8)
			}
			w.put(0, 4)
			return w.buf
		}, "", func(r *Result) string {
			if len(r.Content) != 17 || r.TerminatorBits != 4 || r.PadCodewords != 0 {
				return fmt.Sprintf("%+v", r)
			}
			return ""
		}},
		{"truncated terminator (1 bit)", 1, 0, func(w *bitWriter, n int) []byte {
			// numeric 41 digits: 4+10+13*10+7 = 151 bits of 152
			w.put(1, 4)
			w.put(41, 10)
			for i := 0; i < 13; i++ {
				w.put(999, 10)
			}
			w.put(99, 7)
			w.put(0, 1)
			return w.buf
		}, "", func(r *Result) string {
			if len(r.Content) != 41 || r.TerminatorBits != 1 || r.PadCodewords != 0 {
				return fmt.Sprintf("%+v", r)
			}
			return ""
		}},
		{"truncated terminator not zero", 1, 0, func(w *bitWriter, n int) []byte {
			w.put(1, 4)
			w.put(41, 10)
			for i := 0; i < 13; i++ {
				w.put(999, 10)
			}
			w.put(99, 7)
			w.put(1, 1)
			return w.buf
		}, "terminator", nil},
		{"exact fit, zero terminator bits", 1, 3, func(w *bitWriter, n int) []byte {
			// 1-H: 72 bits. byte mode 7 chars: 4+8+56 = 68, +4 terminator. alnum 10: 4+9+55 = 68.
			// numeric 17: 4+10+50+7 = 71 -> 1 bit. Use two segments to hit 72 exactly:
			// byte 5 chars (4+8+40 = 52) + numeric 1 digit (4+10+4 = 18) = 70; + numeric... use
			// byte 3 (36) + alnum 3 (4+9+17 = 30) = 66; hmm. byte 4 (44) + numeric 4 (4+10+14 = 28) = 72.
			w.put(4, 4)
			w.put(4, 8)
			w.put(0xDEADBEEF, 32)
			w.put(1, 4)
			w.put(4, 10)
			w.put(123, 10)
			w.put(4, 4)
			return w.buf
		}, "", func(r *Result) string {
			if string(r.Content) != "\xde\xad\xbe\xef1234" || r.TerminatorBits != 0 || r.PadCodewords != 0 {
				return fmt.Sprintf("%q %+v", r.Content, r)
			}
			return ""
		}},
		{"pad starts with 0x11", 1, 0, func(w *bitWriter, n int) []byte {
			w.put(4, 4)
			w.put(1, 8)
			w.put('x', 8)
			w.put(0, 4)
			for i := 0; len(w.buf) < n; i++ {
				w.buf = append(w.buf, []byte{0x11, 0xEC}[i&1])
			}
			return w.buf
		}, "pad codeword 0", nil},
		{"pad of zeros", 1, 0, func(w *bitWriter, n int) []byte {
			w.put(4, 4)
			w.put(1, 8)
			w.put('x', 8)
			w.put(0, 4)
			for len(w.buf) < n {
				w.buf = append(w.buf, 0)
			}
			return w.buf
		}, "pad codeword 0", nil},
		{"last pad wrong", 1, 0, func(w *bitWriter, n int) []byte {
			w.put(4, 4)
			w.put(1, 8)
			w.put('x', 8)
			b := fill(w, n)
			b[n-1] ^= 0x01
			return b
		}, "pad codeword", nil},
		{"bits after terminator not zero", 1, 0, func(w *bitWriter, n int) []byte {
			w.put(1, 4)
			w.put(1, 10)
			w.put(5, 4) // 18 bits
			w.put(0, 4) // 22 bits
			w.put(1, 2) // nonzero fill
			return fill(w, n)
		}, "codeword boundary", nil},
		{"ECI rejected", 1, 0, func(w *bitWriter, n int) []byte {
			w.put(7, 4)
			w.put(26, 8)
			w.put(4, 4)
			w.put(1, 8)
			w.put('x', 8)
			return fill(w, n)
		}, "mode indicator 0111", nil},
		{"kanji rejected", 1, 0, func(w *bitWriter, n int) []byte {
			w.put(8, 4)
			w.put(1, 8)
			w.put(0x100, 13)
			return fill(w, n)
		}, "mode indicator 1000", nil},
		{"FNC1 rejected", 1, 0, func(w *bitWriter, n int) []byte {
			w.put(5, 4)
			w.put(1, 4)
			w.put(1, 10)
			w.put(5, 4)
			return fill(w, n)
		}, "mode indicator 0101", nil},
		{"structured append rejected", 1, 0, func(w *bitWriter, n int) []byte {
			w.put(3, 4)
			w.put(0x01, 8)
			w.put(0x55, 8)
			return fill(w, n)
		}, "mode indicator 0011", nil},
		{"numeric group > 999", 1, 0, func(w *bitWriter, n int) []byte {
			w.put(1, 4)
			w.put(3, 10)
			w.put(1000, 10)
			return fill(w, n)
		}, "> 999", nil},
		{"numeric 2 digits > 99", 1, 0, func(w *bitWriter, n int) []byte {
			w.put(1, 4)
			w.put(2, 10)
			w.put(100, 7)
			return fill(w, n)
		}, "> 99", nil},
		{"numeric 1 digit > 9", 1, 0, func(w *bitWriter, n int) []byte {
			w.put(1, 4)
			w.put(1, 10)
			w.put(10, 4)
			return fill(w, n)
		}, "> 9", nil},
		{"alnum pair >= 2025", 1, 0, func(w *bitWriter, n int) []byte {
			w.put(2, 4)
			w.put(2, 9)
			w.put(2025, 11)
			return fill(w, n)
		}, ">= 2025", nil},
		{"alnum single >= 45", 1, 0, func(w *bitWriter, n int) []byte {
			w.put(2, 4)
			w.put(1, 9)
			w.put(45, 6)
			return fill(w, n)
		}, ">= 45", nil},
		{"count runs past capacity", 1, 0, func(w *bitWriter, n int) []byte {
			w.put(4, 4)
			w.put(18, 8)
			for len(w.buf) < n {
				w.put(0, 8)
			}
			return w.buf[:n]
		}, "payload bits", nil},
		{"v10 count width 12/16", 10, 0, func(w *bitWriter, n int) []byte {
			w.put(1, 4)
			w.put(5, 12)
			w.put(123, 10)
			w.put(45, 7)
			w.put(4, 4)
			w.put(2, 16)
			w.put('h', 8)
			w.put('i', 8)
			w.put(2, 4)
			w.put(2, 11)
			w.put(44*45+43, 11)
			return fill(w, n)
		}, "", func(r *Result) string {
			if string(r.Content) != "12345hi:/" {
				return fmt.Sprintf("%q", r.Content)
			}
			return ""
		}},
		{"v27 count width 14/13/16", 27, 3, func(w *bitWriter, n int) []byte {
			w.put(1, 4)
			w.put(1, 14)
			w.put(0, 4)
			w.put(2, 4)
			w.put(1, 13)
			w.put(35, 6)
			w.put(4, 4)
			w.put(1, 16)
			w.put(0x80, 8)
			return fill(w, n)
		}, "", func(r *Result) string {
			if string(r.Content) != "0Z\x80" {
				return fmt.Sprintf("%q", r.Content)
			}
			return ""
		}},
	}
	for _, c := range cases {
		for _, mask := range []int{0, 3, 7} {
			ncw := DataCodewords(c.version, c.level)
			data := c.build(&bitWriter{}, ncw)
			g := buildSymbol(t, c.version, c.level, mask, data)
			r, err := Decode(g)
			if c.wantErr == "" {
				if err != nil {
					t.Errorf("%s (mask %d): %v", c.name, mask, err)
					continue
				}
				if r.Version != c.version || r.Level != c.level || r.Mask != mask {
					t.Errorf("%s: header %+v", c.name, r)
				}
				if msg := c.check(r); msg != "" {
					t.Errorf("%s (mask %d): %s", c.name, mask, msg)
				}
			} else {
				if err == nil {
					t.Errorf("%s (mask %d): decoded, want error containing %q", c.name, mask, c.wantErr)
				} else if !strings.Contains(err.Error(), c.wantErr) || err.(*Error).Stage != "data" {
					t.Errorf("%s (mask %d): error %q, want substring %q", c.name, mask, err, c.wantErr)
				}
			}
		}
	}
}

// Every version/level/mask: synthetic symbol with random byte payload decodes.
func TestSyntheticAllVersions(t *testing.T) {
	rng := rand.New(rand.NewSource(1))
	for v := 1; v <= 40; v++ {
		for l := 0; l < 4; l++ {
			ncw := DataCodewords(v, l)
			n := ncw - 3
			if v < 10 {
				n = ncw - 2
			}
			n -= rng.Intn(3)
			payload := make([]byte, n)
			rng.Read(payload)
			w := &bitWriter{}
			w.put(4, 4)
			w.put(n, CountBits(4, v))
			for _, b := range payload {
				w.put(int(b), 8)
			}
			data := padTo(w, ncw)
			mask := rng.Intn(8)
			g := buildSymbol(t, v, l, mask, data)
			r, err := Decode(g)
			if err != nil {
				t.Fatalf("v%d-%s mask %d: %v", v, LevelName(l), mask, err)
			}
			if !bytes.Equal(r.Content, payload) || r.Mask != mask || r.Version != v || r.Level != l {
				t.Fatalf("v%d-%s: mismatch", v, LevelName(l))
			}
		}
	}
}

// ---------------------------------------------------------------------------
// (3) Round trip through the library under test

func encodeLib(t testing.TB, content string, level qr.ErrorCorrectionLevel, mode qr.Encoding) *grid.Grid {
	t.Helper()
	bc, err := qr.Encode(content, level, mode)
	if err != nil {
		t.Fatalf("qr.Encode(len %d, %v, %v): %v", len(content), level, mode, err)
	}
	g, ok, bx, by := grid.FromImage(bc, color.Black, color.White)
	if !ok {
		t.Fatalf("qr.Encode: pixel (%d,%d) is neither black nor white", bx, by)
	}
	return g
}

var libLevels = [4]qr.ErrorCorrectionLevel{qr.L, qr.M, qr.Q, qr.H}

func genContent(rng *rand.Rand, mode, n int) []byte {
	b := make([]byte, n)
	switch mode {
	case ModeNumeric:
		for i := range b {
			b[i] = byte('0' + rng.Intn(10))
		}
		if n > 2 {
			b[0], b[1] = '0', '0' // leading zeros must survive
		}
	case ModeAlphanumeric:
		for i := range b {
			b[i] = AlphanumericCharset[rng.Intn(45)]
		}
		if n > 0 {
			b[n-1] = ':' // make sure it is not all digits
		}
	case ModeByte:
		rng.Read(b)
		special := []byte{0x00, 0xFF, 0xC3, 0x28, 0x80, 0xE2, 0x82, 0xF0}
		for i := 0; i < n && i < len(special); i++ {
			b[i] = special[i]
		}
	}
	return b
}

// lengthsFor returns, for a mode and level, the content lengths to test with
// the version each must land in.
func lengthsFor(mode, level int) map[int]int {
	out := map[int]int{}
	maxLen := func(v int) int { // largest n with MinVersion == v
		lo, hi := 0, 8000
		for lo < hi {
			mid := (lo + hi + 1) / 2
			mv := MinVersion(mode, level, mid)
			if mv != 0 && mv <= v {
				lo = mid
			} else {
				hi = mid - 1
			}
		}
		return lo
	}
	for _, v := range []int{1, 2, 6, 7, 9, 10, 26, 27, 40} {
		hi := maxLen(v)
		out[hi] = v
		if v > 1 {
			out[maxLen(v-1)+1] = v
		}
	}
	out[1] = 1
	out[2] = 1
	out[3] = 1
	return out
}

func TestRoundTripLibrary(t *testing.T) {
	start := time.Now()
	type job struct {
		level   int
		libMode qr.Encoding
		mode    int // expected segment mode
		n       int
		version int
		name    string
	}
	var jobs []job
	modes := []struct {
		lib  qr.Encoding
		mode int
		name string
	}{
		{qr.Numeric, ModeNumeric, "Numeric"},
		{qr.AlphaNumeric, ModeAlphanumeric, "AlphaNumeric"},
		{qr.Unicode, ModeByte, "Unicode"},
		{qr.Auto, ModeNumeric, "Auto/digits"},
		{qr.Auto, ModeAlphanumeric, "Auto/alnum"},
		{qr.Auto, ModeByte, "Auto/bytes"},
	}
	for l := 0; l < 4; l++ {
		for _, m := range modes {
			for n, v := range lengthsFor(m.mode, l) {
				jobs = append(jobs, job{l, m.lib, m.mode, n, v, m.name})
			}
		}
	}
	var mu sync.Mutex
	fails := 0
	var masksSeen [8]int
	report := func(format string, args ...interface{}) {
		mu.Lock()
		defer mu.Unlock()
		fails++
		if fails <= 40 {
			t.Errorf(format, args...)
		}
	}
	var wg sync.WaitGroup
	ch := make(chan job)
	for w := 0; w < 8; w++ {
		wg.Add(1)
		go func() {
			defer wg.Done()
			for j := range ch {
				rng := rand.New(rand.NewSource(int64(j.n*131 + j.level*7 + j.mode)))
				content := genContent(rng, j.mode, j.n)
				if j.libMode == qr.Auto && j.mode == ModeByte && j.n > 0 {
					content[0] = 0x00 // never alphanumeric
				}
				id := fmt.Sprintf("%s level %s len %d (want v%d)", j.name, LevelName(j.level), j.n, j.version)
				bc, err := qr.Encode(string(content), libLevels[j.level], j.libMode)
				if err != nil {
					report("%s: qr.Encode failed: %v", id, err)
					continue
				}
				g, ok, bx, by := grid.FromImage(bc, color.Black, color.White)
				if !ok {
					report("%s: pixel (%d,%d) neither black nor white", id, bx, by)
					continue
				}
				r, err := Decode(g)
				if err != nil {
					report("%s: Decode: %v", id, err)
					continue
				}
				mu.Lock()
				masksSeen[r.Mask]++
				mu.Unlock()
				if !bytes.Equal(r.Content, content) {
					report("%s: content mismatch: got %d bytes %.40q, want %d bytes %.40q", id, len(r.Content), r.Content, len(content), content)
				}
				if r.Level != j.level {
					report("%s: level %s", id, LevelName(r.Level))
				}
				if r.Version != j.version {
					report("%s: version %d", id, r.Version)
				}
				if len(r.Segments) != 1 || r.Segments[0] != (Segment{j.mode, j.n}) {
					report("%s: segments %+v", id, r.Segments)
				}
			}
		}()
	}
	for _, j := range jobs {
		ch <- j
	}
	close(ch)
	wg.Wait()
	t.Logf("%d library round trips in %v, %d failures, masks seen %v", len(jobs), time.Since(start), fails, masksSeen)
	for m, n := range masksSeen {
		if n == 0 && fails == 0 {
			t.Errorf("mask %d never produced by the library in this corpus", m)
		}
	}
}

// Content one character over the version-40 capacity must be refused by the
// library (reported, not a decoder matter).
func TestLibraryOverCapacity(t *testing.T) {
	for l := 0; l < 4; l++ {
		for _, m := range []struct {
			lib  qr.Encoding
			mode int
		}{{qr.Numeric, 1}, {qr.AlphaNumeric, 2}, {qr.Unicode, 4}} {
			n := 0
			for MinVersion(m.mode, l, n+1) != 0 {
				n++
			}
			content := genContent(rand.New(rand.NewSource(5)), m.mode, n+1)
			if _, err := qr.Encode(string(content), libLevels[l], m.lib); err == nil {
				t.Errorf("library accepted %d chars in mode %d level %s (capacity %d)", n+1, m.mode, LevelName(l), n)
			}
		}
	}
}

func TestEmptyContentLibrary(t *testing.T) {
	for l := 0; l < 4; l++ {
		for _, m := range []qr.Encoding{qr.Auto, qr.Numeric, qr.AlphaNumeric, qr.Unicode} {
			bc, err := qr.Encode("", libLevels[l], m)
			if err != nil {
				t.Logf("qr.Encode(\"\", %s, %v) refused: %v", LevelName(l), m, err)
				continue
			}
			g, ok, _, _ := grid.FromImage(bc, color.Black, color.White)
			if !ok {
				t.Errorf("empty: bad pixel")
				continue
			}
			r, err := Decode(g)
			if err != nil {
				t.Errorf("empty content level %s mode %v: %v", LevelName(l), m, err)
				continue
			}
			if len(r.Content) != 0 || r.Version != 1 || r.Level != l {
				t.Errorf("empty content level %s mode %v: %+v", LevelName(l), m, r)
			}
			t.Logf("empty content level %s mode %v: segments %+v terminator %d pads %d", LevelName(l), m, r.Segments, r.TerminatorBits, r.PadCodewords)
		}
	}
}

// Observation only (never fails): in Numeric and Auto mode the library accepts
// a '+' (or a '-' in front of an all-zero group) as the first character of a
// 3-character group and encodes it as the digit 0, so the symbol does not carry
// the input. Such inputs are excluded from the round trip test above.
func TestLibrarySignedNumericObservation(t *testing.T) {
	for _, m := range []qr.Encoding{qr.Numeric, qr.Auto} {
		for _, s := range []string{"+12", "-0", "+1", "-00", "123+45", "123-0", "+12+34", "-12", "12+"} {
			bc, err := qr.Encode(s, qr.M, m)
			if err != nil {
				t.Logf("mode %v %q: refused: %v", m, s, err)
				continue
			}
			g, _, _, _ := grid.FromImage(bc, color.Black, color.White)
			r, err := Decode(g)
			if err != nil {
				t.Logf("mode %v %q: decode error %v", m, s, err)
				continue
			}
			note := "ok"
			if string(r.Content) != s {
				note = "LIBRARY DEFECT: symbol does not carry the input"
			}
			t.Logf("mode %v %q -> %q segments %+v: %s", m, s, r.Content, r.Segments, note)
		}
	}
}

// ---------------------------------------------------------------------------
// (4) Negative tests: single module flips

func cloneGrid(g *grid.Grid) *grid.Grid {
	c := grid.New(g.W, g.H)
	copy(c.Bits, g.Bits)
	return c
}

func TestSingleModuleFlips(t *testing.T) {
	// version 7 has every kind of region; flip every single module.
	n7 := 0
	for MinVersion(ModeAlphanumeric, 2, n7+1) <= 7 {
		n7++
	}
	content := strings.Repeat("HELLO WORLD 123 ", 20)[:n7]
	for _, src := range []struct {
		name string
		g    *grid.Grid
	}{
		{"lib v7", encodeLib(t, content, qr.Q, qr.AlphaNumeric)},
		{"lib v1", encodeLib(t, "0123456", qr.M, qr.Numeric)},
		{"lib v2", encodeLib(t, "hello, world; hello, moon", qr.L, qr.Unicode)},
		{"lib v14", encodeLib(t, strings.Repeat("x", 350), qr.M, qr.Unicode)},
	} {
		g := src.g
		base, err := Decode(g)
		if err != nil {
			t.Fatalf("%s: %v", src.name, err)
		}
		if src.name == "lib v7" && base.Version != 7 {
			t.Fatalf("expected version 7, got %d", base.Version)
		}
		if want := map[string]int{"lib v7": 7, "lib v1": 1, "lib v2": 2, "lib v14": 14}[src.name]; base.Version != want {
			t.Fatalf("%s: got version %d", src.name, base.Version)
		}
		kinds := map[string]int{}
		for y := 0; y < g.H; y++ {
			for x := 0; x < g.W; x++ {
				c := cloneGrid(g)
				c.Set(x, y, !c.At(x, y))
				_, err := Decode(c)
				k := KindName(ModuleKind(base.Version, x, y))
				if err == nil {
					t.Errorf("%s: flipping %s module (%d,%d) was not detected", src.name, k, x, y)
					continue
				}
				stage := err.(*Error).Stage
				want := k
				if k == "data" {
					want = "rs"
					if stage == "remainder" {
						want = "remainder"
					}
				}
				if stage != want {
					t.Errorf("%s: flipping %s module (%d,%d): error stage %q: %v", src.name, k, x, y, stage, err)
				}
				kinds[stage]++
			}
		}
		t.Logf("%s (v%d): detections per stage: %v", src.name, base.Version, kinds)
		for _, k := range []string{"finder", "separator", "timing", "format", "darkmodule", "rs"} {
			if kinds[k] == 0 {
				t.Errorf("%s: no %s flip exercised", src.name, k)
			}
		}
		if base.Version >= 7 && (kinds["version"] != 36 || kinds["alignment"] == 0) {
			t.Errorf("%s: version/alignment flips: %v", src.name, kinds)
		}
		if kinds["format"] != 30 || kinds["darkmodule"] != 1 || kinds["finder"] != 147 || kinds["remainder"] != RemainderBits(base.Version) {
			t.Errorf("%s: unexpected counts %v", src.name, kinds)
		}
	}
}

func TestSizeErrors(t *testing.T) {
	for _, wh := range [][2]int{{0, 0}, {20, 20}, {21, 25}, {22, 22}, {181, 181}, {17, 17}} {
		if _, err := Decode(grid.New(wh[0], wh[1])); err == nil || err.(*Error).Stage != "size" {
			t.Errorf("%v: %v", wh, err)
		}
	}
	if _, err := Decode(nil); err == nil {
		t.Error("nil grid")
	}
	// Consistent corruption of both format copies to another valid word must
	// still be caught (by the RS check), and a version word of another version
	// by the version comparison.
	g := encodeLib(t, strings.Repeat("A", 100), qr.M, qr.AlphaNumeric)
	r, err := Decode(g)
	if err != nil {
		t.Fatal(err)
	}
	vi := getVersion(r.Version)
	c := cloneGrid(g)
	fw := FormatWord(r.Level, (r.Mask+1)%8)
	for i := 0; i < 15; i++ {
		c.Bits[vi.fmt1[i]] = fw>>uint(i)&1 != 0
		c.Bits[vi.fmt2[i]] = fw>>uint(i)&1 != 0
	}
	if _, err := Decode(c); err == nil || err.(*Error).Stage == "format" {
		t.Errorf("wrong mask in format: %v", err)
	}
	if r.Version >= 7 {
		c = cloneGrid(g)
		vw := VersionWord(r.Version + 1)
		for i := 0; i < 18; i++ {
			c.Bits[vi.ver1[i]] = vw>>uint(i)&1 != 0
			c.Bits[vi.ver2[i]] = vw>>uint(i)&1 != 0
		}
		if _, err := Decode(c); err == nil || err.(*Error).Stage != "version" || !strings.Contains(err.Error(), "says version") {
			t.Errorf("wrong version word: %v", err)
		}
	}
}

func TestConcurrentDecode(t *testing.T) {
	g := encodeLib(t, strings.Repeat("concurrency ", 40), qr.M, qr.Unicode)
	var wg sync.WaitGroup
	for i := 0; i < 8; i++ {
		wg.Add(1)
		go func() {
			defer wg.Done()
			for k := 0; k < 200; k++ {
				r, err := Decode(g)
				if err != nil || string(r.Content) != strings.Repeat("concurrency ", 40) {
					t.Errorf("concurrent decode: %v", err)
					return
				}
			}
		}()
	}
	wg.Wait()
}

// ---------------------------------------------------------------------------
// Benchmarks

func benchGrid(b *testing.B, version int) *grid.Grid {
	n := 0
	for MinVersion(ModeByte, 0, n+1) != 0 && MinVersion(ModeByte, 0, n+1) <= version {
		n++
	}
	content := genContent(rand.New(rand.NewSource(9)), ModeByte, n)
	g := encodeLib(b, string(content), qr.L, qr.Unicode)
	if r, err := Decode(g); err != nil || r.Version != version {
		b.Fatalf("bench setup: %v", err)
	}
	return g
}

func BenchmarkDecodeV1(b *testing.B) {
	g := benchGrid(b, 1)
	b.ReportAllocs()
	b.ResetTimer()
	for i := 0; i < b.N; i++ {
		Decode(g)
	}
}

func BenchmarkDecodeV10(b *testing.B) {
	g := benchGrid(b, 10)
	b.ReportAllocs()
	b.ResetTimer()
	for i := 0; i < b.N; i++ {
		Decode(g)
	}
}

func BenchmarkDecodeV40(b *testing.B) {
	g := benchGrid(b, 40)
	b.ReportAllocs()
	b.ResetTimer()
	for i := 0; i < b.N; i++ {
		Decode(g)
	}
}
