package qrdec

import (
	"image/color"
	"testing"

	"github.com/boombuler/barcode/qr"
	"verif/oracle/grid"
)

func TestProbe(t *testing.T) {
	for _, m := range []qr.Encoding{qr.Auto, qr.Numeric, qr.AlphaNumeric, qr.Unicode} {
		for _, s := range []string{"123+45", "123-00", "123-0", "123+4", "123-45", "+12+34", "000+00+11", "12+", "1234+5", "123+", "+00", "-00", "-000", "+0", "-1", "999-0+1"} {
			bc, err := qr.Encode(s, qr.M, m)
			if err != nil {
				t.Logf("mode %v %q: encode error: %v", m, s, err)
				continue
			}
			g, _, _, _ := grid.FromImage(bc, color.Black, color.White)
			r, err := Decode(g)
			if err != nil {
				t.Logf("mode %v %q: DECODE ERROR: %v", m, s, err)
				continue
			}
			flag := ""
			if string(r.Content) != s {
				flag = "  <<<<< MISMATCH"
			}
			t.Logf("mode %v %q: -> %q segs %+v%s", m, s, r.Content, r.Segments, flag)
		}
	}
}
