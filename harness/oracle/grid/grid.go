// Package grid is the only thing the reference decoders see of a barcode:
// a rectangle of dark/light modules read from the pixels of the image.
package grid

import (
	"image"
	"image/color"
)

// Grid is a W x H module matrix; Bits[y*W+x] is true for a dark module.
type Grid struct {
	W, H int
	Bits []bool
}

func New(w, h int) *Grid { return &Grid{W: w, H: h, Bits: make([]bool, w*h)} }

func (g *Grid) At(x, y int) bool { return g.Bits[y*g.W+x] }

func (g *Grid) Set(x, y int, v bool) { g.Bits[y*g.W+x] = v }

// In reports whether (x,y) lies inside the grid.
func (g *Grid) In(x, y int) bool { return x >= 0 && y >= 0 && x < g.W && y < g.H }

// FromImage reads every pixel of img. A pixel identical (interface equality)
// to fg is dark, identical to bg is light; anything else makes ok=false.
func FromImage(img image.Image, fg, bg color.Color) (g *Grid, ok bool, badX, badY int) {
	b := img.Bounds()
	g = New(b.Dx(), b.Dy())
	ok = true
	for y := 0; y < g.H; y++ {
		for x := 0; x < g.W; x++ {
			c := img.At(b.Min.X+x, b.Min.Y+y)
			switch c {
			case fg:
				g.Bits[y*g.W+x] = true
			case bg:
			default:
				if ok {
					ok, badX, badY = false, x, y
				}
			}
		}
	}
	return
}

// String renders the grid with '#' and '.', one row per line (for replays).
func (g *Grid) String() string {
	buf := make([]byte, 0, (g.W+1)*g.H)
	for y := 0; y < g.H; y++ {
		for x := 0; x < g.W; x++ {
			if g.At(x, y) {
				buf = append(buf, '#')
			} else {
				buf = append(buf, '.')
			}
		}
		buf = append(buf, '\n')
	}
	return string(buf)
}
