package aztecdec

import (
	"errors"
	"fmt"
)

// Character-set modes of the high-level encodation.
const (
	mUpper = iota
	mLower
	mMixed
	mDigit
	mPunct
	nModes
)

var modeLetter = [nModes]byte{'U', 'L', 'M', 'D', 'P'}

const (
	kChar  = iota // emits s
	kLatch        // permanent switch to mode "to"
	kShift        // switch to mode "to" for exactly one code
	kBS           // binary shift
	kFLG          // FLG(n): ECI / FNC1, never legal for this oracle
	kNone         // code does not exist (digit codes are 4 bits, indices 16..31 unused)
)

type entry struct {
	kind uint8
	to   uint8
	s    string
}

var (
	tables     [nModes][32]entry
	latchNames [nModes][nModes]string // "U>L"
	shiftNames [nModes][nModes]string // "L^U"
)

func init() {
	for a := 0; a < nModes; a++ {
		for b := 0; b < nModes; b++ {
			latchNames[a][b] = string([]byte{modeLetter[a], '>', modeLetter[b]})
			shiftNames[a][b] = string([]byte{modeLetter[a], '^', modeLetter[b]})
		}
		for i := range tables[a] {
			tables[a][i].kind = kNone
		}
	}
	ch := func(m, code int, s string) { tables[m][code] = entry{kind: kChar, s: s} }
	latch := func(m, code, to int) { tables[m][code] = entry{kind: kLatch, to: uint8(to)} }
	shift := func(m, code, to int) { tables[m][code] = entry{kind: kShift, to: uint8(to)} }

	// Upper
	shift(mUpper, 0, mPunct)
	ch(mUpper, 1, " ")
	for i := 0; i < 26; i++ {
		ch(mUpper, 2+i, string(rune('A'+i)))
	}
	latch(mUpper, 28, mLower)
	latch(mUpper, 29, mMixed)
	latch(mUpper, 30, mDigit)
	tables[mUpper][31] = entry{kind: kBS}

	// Lower
	shift(mLower, 0, mPunct)
	ch(mLower, 1, " ")
	for i := 0; i < 26; i++ {
		ch(mLower, 2+i, string(rune('a'+i)))
	}
	shift(mLower, 28, mUpper)
	latch(mLower, 29, mMixed)
	latch(mLower, 30, mDigit)
	tables[mLower][31] = entry{kind: kBS}

	// Mixed
	shift(mMixed, 0, mPunct)
	ch(mMixed, 1, " ")
	for i := 1; i <= 13; i++ { // ^A .. ^M
		ch(mMixed, 1+i, string([]byte{byte(i)}))
	}
	for i := 0; i < 5; i++ { // ESC FS GS RS US
		ch(mMixed, 15+i, string([]byte{byte(27 + i)}))
	}
	for i, c := range []byte{'@', '\\', '^', '_', '`', '|', '~', 127} {
		ch(mMixed, 20+i, string([]byte{c}))
	}
	latch(mMixed, 28, mLower)
	latch(mMixed, 29, mUpper)
	latch(mMixed, 30, mPunct)
	tables[mMixed][31] = entry{kind: kBS}

	// Punct
	tables[mPunct][0] = entry{kind: kFLG}
	ch(mPunct, 1, "\r")
	ch(mPunct, 2, "\r\n")
	ch(mPunct, 3, ". ")
	ch(mPunct, 4, ", ")
	ch(mPunct, 5, ": ")
	for i, c := range []byte("!\"#$%&'()*+,-./:;<=>?[]{}") {
		ch(mPunct, 6+i, string([]byte{c}))
	}
	latch(mPunct, 31, mUpper)

	// Digit (4-bit codes)
	shift(mDigit, 0, mPunct)
	ch(mDigit, 1, " ")
	for i := 0; i < 10; i++ {
		ch(mDigit, 2+i, string(rune('0'+i)))
	}
	ch(mDigit, 12, ",")
	ch(mDigit, 13, ".")
	latch(mDigit, 14, mUpper)
	shift(mDigit, 15, mUpper)
}

func codeSize(mode int) int {
	if mode == mDigit {
		return 4
	}
	return 5
}

func readBits(bits []uint8, pos, n int) int {
	v := 0
	for _, b := range bits[pos : pos+n] {
		v = v<<1 | int(b)
	}
	return v
}

func allOnes(bits []uint8) bool {
	for _, b := range bits {
		if b == 0 {
			return false
		}
	}
	return true
}

// highLevel interprets the un-stuffed bit stream (one bit per element).
//
// End of data: the encoder pads the last codeword with 1 bits, so at most
// WordSize-1 trailing 1 bits may follow the last code.  They are accepted
// only at a code boundary of the latched mode (never inside a shift, a
// binary-shift length or a binary run).  Every other incomplete or
// undefined code is an error.
func (r *Result) highLevel(bits []uint8) error {
	n := len(bits)
	content := make([]byte, 0, n/5+2)
	var modes []string
	latch := mUpper // mode to return to after the next code
	cur := mUpper   // mode the next code is read in
	pos := 0
	for {
		rem := n - pos
		if cur == latch {
			if rem == 0 {
				break
			}
			if rem < r.WordSize && allOnes(bits[pos:]) {
				r.PaddingBits = rem
				break
			}
		}
		size := codeSize(cur)
		if rem < size {
			if cur != latch {
				return fmt.Errorf("bit stream ends inside a shift to %c (%d bits left, payload %d bits)", modeLetter[cur], rem, n)
			}
			return fmt.Errorf("%d trailing bits at offset %d are neither a code of mode %c nor all-one padding", rem, pos, modeLetter[cur])
		}
		code := readBits(bits, pos, size)
		pos += size
		e := &tables[cur][code]
		switch e.kind {
		case kChar:
			content = append(content, e.s...)
			cur = latch
		case kLatch:
			modes = append(modes, latchNames[cur][e.to])
			latch = int(e.to)
			cur = latch
		case kShift:
			// a shift returns to the mode it was invoked from
			modes = append(modes, shiftNames[cur][e.to])
			latch = cur
			cur = int(e.to)
		case kBS:
			if n-pos < 5 {
				return fmt.Errorf("bit stream ends inside a binary-shift length (offset %d of %d)", pos, n)
			}
			length := readBits(bits, pos, 5)
			pos += 5
			if length == 0 {
				if n-pos < 11 {
					return fmt.Errorf("bit stream ends inside a long binary-shift length (offset %d of %d)", pos, n)
				}
				length = readBits(bits, pos, 11) + 31
				pos += 11
				modes = append(modes, "BS11")
			} else {
				modes = append(modes, "BS5")
			}
			if n-pos < 8*length {
				return fmt.Errorf("binary shift of %d bytes at offset %d overruns the %d payload bits", length, pos, n)
			}
			for i := 0; i < length; i++ {
				content = append(content, byte(readBits(bits, pos, 8)))
				pos += 8
			}
			// B/S returns to the mode it was invoked from
			latch = cur
		case kFLG:
			return fmt.Errorf("FLG(n) at bit offset %d is not supported", pos-size)
		default:
			return errors.New("internal: undefined code")
		}
	}
	r.Content = content
	r.Modes = modes
	return nil
}
