// Package aztecdec is a strict reference decoder for Aztec Code
// (ISO/IEC 24778).  It is an oracle: it never corrects errors and rejects
// every deviation from the symbol structure the standard prescribes.
//
// It is written from the standard, independently of the encoder under test.
package aztecdec

import (
	"errors"
	"fmt"

	"verif/oracle/grid"
)

// Result describes a successfully decoded symbol.
type Result struct {
	Compact     bool
	Layers      int // 1..4 compact, 1..32 full
	WordSize    int // 6, 8, 10 or 12
	TotalWords  int // codewords in the symbol (data + check)
	DataWords   int // from the mode message
	CheckWords  int // TotalWords - DataWords
	StuffedBits int // DataWords * WordSize
	PayloadBits int // data bits after un-stuffing (incl. trailing padding)
	PaddingBits int // trailing all-one padding bits ignored by the high-level decoder
	LeadingBits int // TotalBits % WordSize unused (zero) bits in front of the first codeword
	ModeMessage uint16
	Content     []byte
	Modes       []string // trace of latches / shifts / binary shifts
	// RefGridErrors is always 0 for Decode; with Options.IgnoreReferenceGrid
	// it counts the reference-grid modules that have the wrong colour.
	RefGridErrors int
}

// Options relax the decoder.  The zero value is the strict oracle.
type Options struct {
	// IgnoreReferenceGrid skips the verification of the reference grid of
	// full-range symbols (the bull's eye, the orientation marks and the
	// reference modules inside the mode-message ring are still verified).
	// The number of wrong modules is reported in Result.RefGridErrors.
	IgnoreReferenceGrid bool
}

// Decode reads an Aztec symbol occupying exactly the whole grid.
func Decode(g *grid.Grid) (*Result, error) { return DecodeWith(g, Options{}) }

// DecodeWith is Decode with some checks optionally disabled.
func DecodeWith(g *grid.Grid, opt Options) (*Result, error) {
	if g == nil {
		return nil, errors.New("aztec: nil grid")
	}
	if g.W != g.H {
		return nil, fmt.Errorf("aztec: grid %dx%d is not square", g.W, g.H)
	}
	if len(g.Bits) != g.W*g.H {
		return nil, fmt.Errorf("aztec: grid has %d modules, want %d", len(g.Bits), g.W*g.H)
	}
	var cand [2]*geom
	nc := 0
	for l := 1; l <= 4; l++ {
		if SymbolSize(true, l) == g.W {
			cand[nc] = getGeom(true, l)
			nc++
		}
	}
	for l := 1; l <= 32; l++ {
		if SymbolSize(false, l) == g.W {
			cand[nc] = getGeom(false, l)
			nc++
		}
	}
	if nc == 0 {
		return nil, fmt.Errorf("aztec: side %d is not a valid Aztec symbol size", g.W)
	}
	var gm *geom
	bad := [2]int{-1, -1}
	for i := 0; i < nc; i++ {
		bad[i] = cand[i].checkFixed(g, opt.IgnoreReferenceGrid)
		if bad[i] < 0 {
			if gm != nil {
				// impossible: the two formats contradict each other at
				// distance 5 from the centre
				return nil, errors.New("aztec: symbol matches both compact and full function patterns")
			}
			gm = cand[i]
		}
	}
	if gm == nil {
		msg := "aztec: function patterns wrong:"
		for i := 0; i < nc; i++ {
			c := cand[i]
			idx := int(c.fixedIdx[bad[i]])
			msg += fmt.Sprintf(" [as %s: %s module (%d,%d) must be %s]", c.name(),
				kindNames[c.fixedKind[bad[i]]], idx%c.size, idx/c.size, colourName(c.fixedVal[bad[i]]))
		}
		return nil, errors.New(msg)
	}
	res, err := gm.decode(g)
	if err == nil && opt.IgnoreReferenceGrid && !gm.compact {
		for i, idx := range gm.fixedIdx {
			if g.Bits[idx] != gm.fixedVal[i] {
				res.RefGridErrors++
			}
		}
	}
	return res, err
}

// modeRSError takes the words by value so that the caller's array stays on
// the stack in the success path.
func modeRSError(gm *geom, mw [10]uint16, n, j int) error {
	return fmt.Errorf("aztec: %s: mode message %x has non-zero Reed-Solomon syndrome S%d", gm.name(), mw[:n], j)
}

func colourName(dark bool) string {
	if dark {
		return "dark"
	}
	return "light"
}

func (gm *geom) name() string {
	if gm.compact {
		return fmt.Sprintf("compact L%d", gm.layers)
	}
	return fmt.Sprintf("full L%d", gm.layers)
}

// checkFixed returns the index into fixedIdx of the first function-pattern
// module with the wrong colour, or -1.
func (gm *geom) checkFixed(g *grid.Grid, coreOnly bool) int {
	bits := g.Bits
	n := len(gm.fixedIdx)
	if coreOnly {
		n = gm.nCore
	}
	for i, idx := range gm.fixedIdx[:n] {
		if bits[idx] != gm.fixedVal[i] {
			return i
		}
	}
	return -1
}

func (gm *geom) decode(g *grid.Grid) (*Result, error) {
	bits := g.Bits

	// ---- mode message
	var mw [10]uint16
	nmw := len(gm.mode) / 4
	for i := 0; i < nmw; i++ {
		var w uint16
		for b := 0; b < 4; b++ {
			w <<= 1
			if bits[gm.mode[4*i+b]] {
				w |= 1
			}
		}
		mw[i] = w
	}
	var layers, dataWords int
	var modeMsg uint16
	if gm.compact {
		if j := fieldFor(4).firstBadSyndrome(mw[:7], 5); j != 0 {
			return nil, modeRSError(gm, mw, 7, j)
		}
		modeMsg = mw[0]<<4 | mw[1]
		layers = int(modeMsg>>6) + 1
		dataWords = int(modeMsg&0x3F) + 1
	} else {
		if j := fieldFor(4).firstBadSyndrome(mw[:10], 6); j != 0 {
			return nil, modeRSError(gm, mw, 10, j)
		}
		modeMsg = mw[0]<<12 | mw[1]<<8 | mw[2]<<4 | mw[3]
		layers = int(modeMsg>>11) + 1
		dataWords = int(modeMsg&0x7FF) + 1
	}
	if layers != gm.layers {
		return nil, fmt.Errorf("aztec: mode message says %d layers but the symbol size %d means %s", layers, gm.size, gm.name())
	}
	ws := gm.wordSize
	totalWords := gm.totalBits / ws
	if dataWords > totalWords {
		return nil, fmt.Errorf("aztec: %s: mode message claims %d data words but the symbol holds only %d codewords", gm.name(), dataWords, totalWords)
	}

	// ---- codewords
	lead := gm.totalBits % ws
	data := gm.data
	for i := 0; i < lead; i++ {
		if bits[data[i]] {
			return nil, fmt.Errorf("aztec: %s: unused leading bit %d of the data area is set", gm.name(), i)
		}
	}
	var wstack [128]uint16
	var words []uint16
	if totalWords <= len(wstack) {
		words = wstack[:totalWords]
	} else {
		words = make([]uint16, totalWords)
	}
	p := lead
	for i := range words {
		var w uint16
		for b := 0; b < ws; b++ {
			w <<= 1
			if bits[data[p]] {
				w |= 1
			}
			p++
		}
		words[i] = w
	}
	checkWords := totalWords - dataWords
	if j := fieldFor(ws).firstBadSyndrome(words, checkWords); j != 0 {
		return nil, fmt.Errorf("aztec: %s: data codewords have non-zero Reed-Solomon syndrome S%d (%d data + %d check words of %d bits)", gm.name(), j, dataWords, checkWords, ws)
	}

	// ---- remove bit stuffing
	mask := uint16(1)<<uint(ws) - 1
	var pstack [1024]uint8
	var payload []uint8
	if dataWords*ws <= len(pstack) {
		payload = pstack[:0]
	} else {
		payload = make([]uint8, 0, dataWords*ws)
	}
	for i, w := range words[:dataWords] {
		if w == 0 || w == mask {
			return nil, fmt.Errorf("aztec: %s: data codeword %d is %0*b, which bit stuffing forbids", gm.name(), i, ws, w)
		}
		nb := ws
		if w == 1 || w == mask-1 {
			// upper ws-1 bits all equal: the last bit is a stuffed complement
			nb = ws - 1
		}
		for b := 0; b < nb; b++ {
			payload = append(payload, uint8(w>>uint(ws-1-b))&1)
		}
	}

	res := &Result{
		Compact:     gm.compact,
		Layers:      gm.layers,
		WordSize:    ws,
		TotalWords:  totalWords,
		DataWords:   dataWords,
		CheckWords:  checkWords,
		StuffedBits: dataWords * ws,
		PayloadBits: len(payload),
		LeadingBits: lead,
		ModeMessage: modeMsg,
	}
	if err := res.highLevel(payload); err != nil {
		return nil, fmt.Errorf("aztec: %s: %v", gm.name(), err)
	}
	return res, nil
}
