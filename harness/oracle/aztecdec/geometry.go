package aztecdec

import (
	"fmt"
	"sync"
)

// SymbolSize returns the side length in modules of an Aztec symbol.
//
// Compact symbols have an 11x11 core (9x9 bull's eye plus the mode-message
// ring) and 2-module thick layers: 11+4L.  Full-range symbols have a 15x15
// core and additionally carry reference-grid lines every 16 modules from the
// centre; the centre row/column itself is a reference line, so the "base"
// size without any reference line is 14+4L and each side of the centre gets
// one extra line for every complete run of 15 data/core modules.
func SymbolSize(compact bool, layers int) int {
	if compact {
		return 11 + 4*layers
	}
	base := 14 + 4*layers
	return base + 1 + 2*((base/2-1)/15)
}

// TotalBits returns the number of data-layer modules (= bits) of a symbol.
func TotalBits(compact bool, layers int) int {
	if compact {
		return (88 + 16*layers) * layers
	}
	return (112 + 16*layers) * layers
}

// WordSizeFor returns the codeword size in bits for a given number of layers
// (the same rule applies to compact and full-range symbols).
func WordSizeFor(layers int) int {
	switch {
	case layers <= 2:
		return 6
	case layers <= 8:
		return 8
	case layers <= 22:
		return 10
	default:
		return 12
	}
}

// geom is the precomputed module layout of one symbol format.
type geom struct {
	compact   bool
	layers    int
	size      int
	wordSize  int
	totalBits int
	// data[i] is the index (y*size+x) of the module carrying bit i of the
	// codeword stream.
	data []int32
	// mode[i] is the module index of bit i of the mode message.
	mode []int32
	// fixedIdx/fixedVal list every function-pattern module (bull's eye,
	// orientation marks, reference grid) and its mandatory colour.
	fixedIdx []int32
	fixedVal []bool
	// fixedKind[i] names the pattern fixedIdx[i] belongs to (error texts).
	fixedKind []uint8
	// nCore is the number of leading fixed entries that lie inside the core
	// (bull's eye, orientation marks, reference modules of the mode ring).
	nCore int
}

const (
	kindBullsEye = iota
	kindOrientation
	kindRefGrid
)

var kindNames = [...]string{"bull's eye", "orientation mark", "reference grid"}

type geomSlot struct {
	once sync.Once
	g    *geom
}

var geomCache [2][33]geomSlot

func getGeom(compact bool, layers int) *geom {
	c := 0
	if compact {
		c = 1
	}
	s := &geomCache[c][layers]
	s.once.Do(func() { s.g = buildGeom(compact, layers) })
	return s.g
}

func abs(a int) int {
	if a < 0 {
		return -a
	}
	return a
}

func buildGeom(compact bool, layers int) *geom {
	size := SymbolSize(compact, layers)
	gm := &geom{
		compact:   compact,
		layers:    layers,
		size:      size,
		wordSize:  WordSizeFor(layers),
		totalBits: TotalBits(compact, layers),
	}
	c := size / 2
	used := make([]bool, size*size)
	claim := func(x, y int) int32 {
		if x < 0 || y < 0 || x >= size || y >= size {
			panic(fmt.Sprintf("aztecdec: geometry out of range (%d,%d) compact=%v L=%d", x, y, compact, layers))
		}
		i := y*size + x
		if used[i] {
			panic(fmt.Sprintf("aztecdec: module (%d,%d) claimed twice compact=%v L=%d", x, y, compact, layers))
		}
		used[i] = true
		return int32(i)
	}
	fixed := func(x, y int, dark bool, kind uint8) {
		gm.fixedIdx = append(gm.fixedIdx, claim(x, y))
		gm.fixedVal = append(gm.fixedVal, dark)
		gm.fixedKind = append(gm.fixedKind, kind)
	}

	// --- bull's eye: concentric square rings, dark at even distance.
	r := 6 // outermost ring of the finder
	if compact {
		r = 4
	}
	for dy := -r; dy <= r; dy++ {
		for dx := -r; dx <= r; dx++ {
			d := abs(dx)
			if abs(dy) > d {
				d = abs(dy)
			}
			fixed(c+dx, c+dy, d%2 == 0, kindBullsEye)
		}
	}

	// --- ring at distance s: orientation marks at the corners, mode message
	// along the sides (clockwise from the top-left).
	s := r + 1
	// top-left: corner and both neighbours dark
	fixed(c-s, c-s, true, kindOrientation)
	fixed(c-s+1, c-s, true, kindOrientation)
	fixed(c-s, c-s+1, true, kindOrientation)
	// top-right: corner and the module below it dark
	fixed(c+s, c-s, true, kindOrientation)
	fixed(c+s-1, c-s, false, kindOrientation)
	fixed(c+s, c-s+1, true, kindOrientation)
	// bottom-right: only the module above the corner dark
	fixed(c+s, c+s, false, kindOrientation)
	fixed(c+s, c+s-1, true, kindOrientation)
	fixed(c+s-1, c+s, false, kindOrientation)
	// bottom-left: all light
	fixed(c-s, c+s, false, kindOrientation)
	fixed(c-s+1, c+s, false, kindOrientation)
	fixed(c-s, c+s-1, false, kindOrientation)

	var offs []int
	if compact {
		offs = []int{-3, -2, -1, 0, 1, 2, 3}
	} else {
		offs = []int{-5, -4, -3, -2, -1, 1, 2, 3, 4, 5}
		// the reference grid passes through the middle of each side
		fixed(c, c-s, false, kindRefGrid)
		fixed(c+s, c, false, kindRefGrid)
		fixed(c, c+s, false, kindRefGrid)
		fixed(c-s, c, false, kindRefGrid)
	}
	n := len(offs)
	for _, o := range offs { // top, left to right
		gm.mode = append(gm.mode, claim(c+o, c-s))
	}
	for _, o := range offs { // right, top to bottom
		gm.mode = append(gm.mode, claim(c+s, c+o))
	}
	for i := n - 1; i >= 0; i-- { // bottom, right to left
		gm.mode = append(gm.mode, claim(c+offs[i], c+s))
	}
	for i := n - 1; i >= 0; i-- { // left, bottom to top
		gm.mode = append(gm.mode, claim(c-s, c+offs[i]))
	}

	gm.nCore = len(gm.fixedIdx)

	// --- reference grid (full-range only), outside the core.
	if !compact {
		for y := 0; y < size; y++ {
			for x := 0; x < size; x++ {
				dx, dy := x-c, y-c
				if abs(dx) <= s && abs(dy) <= s {
					continue
				}
				if dx%16 == 0 || dy%16 == 0 {
					// modules alternate along each line and are dark at
					// even distance from the centre line crossing.
					fixed(x, y, (dx+dy)%2 == 0, kindRefGrid)
				}
			}
		}
	}

	// --- data layers.  Coordinates are first expressed in a "base" matrix
	// that has no reference lines and then mapped to the real symbol.
	base := 11 + 4*layers
	if !compact {
		base = 14 + 4*layers
	}
	amap := make([]int, base)
	if compact {
		for i := range amap {
			amap[i] = i
		}
	} else {
		oc := base / 2
		for i := 0; i < oc; i++ {
			off := i + i/15
			amap[oc-i-1] = c - off - 1
			amap[oc+i] = c + off + 1
		}
	}
	gm.data = make([]int32, gm.totalBits)
	rowOffset := 0
	for i := 0; i < layers; i++ {
		rowSize := (layers-i)*4 + 9
		if !compact {
			rowSize = (layers-i)*4 + 12
		}
		low := 2 * i
		high := base - 1 - low
		// Each layer is read as four runs of rowSize dominoes (2 modules, the
		// outer one first): down the left side, along the bottom to the
		// right, up the right side, along the top to the left.
		for j := 0; j < rowSize; j++ {
			for k := 0; k < 2; k++ {
				gm.data[rowOffset+2*j+k] = claim(amap[low+k], amap[low+j])
				gm.data[rowOffset+2*rowSize+2*j+k] = claim(amap[low+j], amap[high-k])
				gm.data[rowOffset+4*rowSize+2*j+k] = claim(amap[high-k], amap[high-j])
				gm.data[rowOffset+6*rowSize+2*j+k] = claim(amap[high-j], amap[low+k])
			}
		}
		rowOffset += 8 * rowSize
	}
	if rowOffset != gm.totalBits {
		panic(fmt.Sprintf("aztecdec: layer bits %d != TotalBits %d compact=%v L=%d", rowOffset, gm.totalBits, compact, layers))
	}
	for i, u := range used {
		if !u {
			panic(fmt.Sprintf("aztecdec: module (%d,%d) unassigned compact=%v L=%d", i%size, i/size, compact, layers))
		}
	}
	return gm
}

// Layout describes where the parts of a symbol live; every module index is
// y*Size+x.  It is a copy, callers may modify it.
type Layout struct {
	Size      int
	Data      []int  // module of bit i of the codeword stream (incl. the unused leading bits)
	Mode      []int  // module of bit i of the mode message
	Fixed     []int  // bull's eye, orientation marks and reference grid modules
	FixedDark []bool // mandatory colour of Fixed[i]
	FixedKind []string
}

// LayoutOf returns the module layout of a format (layers 1..4 compact,
// 1..32 full-range); it panics on other arguments.
func LayoutOf(compact bool, layers int) Layout {
	if layers < 1 || layers > 32 || (compact && layers > 4) {
		panic("aztecdec: no such symbol format")
	}
	gm := getGeom(compact, layers)
	l := Layout{Size: gm.size}
	for _, i := range gm.data {
		l.Data = append(l.Data, int(i))
	}
	for _, i := range gm.mode {
		l.Mode = append(l.Mode, int(i))
	}
	for k, i := range gm.fixedIdx {
		l.Fixed = append(l.Fixed, int(i))
		l.FixedDark = append(l.FixedDark, gm.fixedVal[k])
		l.FixedKind = append(l.FixedKind, kindNames[gm.fixedKind[k]])
	}
	return l
}
