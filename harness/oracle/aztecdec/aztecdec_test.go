package aztecdec

import (
	"bytes"
	"fmt"
	"image/color"
	"strings"
	"sync"
	"testing"
	"time"

	"github.com/boombuler/barcode/aztec"

	"verif/oracle/grid"
)

// ---------------------------------------------------------------- tables

func TestSymbolSizeTable(t *testing.T) {
	compact := []int{15, 19, 23, 27}
	for l := 1; l <= 4; l++ {
		if got := SymbolSize(true, l); got != compact[l-1] {
			t.Errorf("compact L%d: size %d want %d", l, got, compact[l-1])
		}
	}
	full := []int{19, 23, 27, 31, 37, 41, 45, 49, 53, 57, 61, 67, 71, 75, 79, 83, 87, 91, 95, 101,
		105, 109, 113, 117, 121, 125, 131, 135, 139, 143, 147, 151}
	for l := 1; l <= 32; l++ {
		if got := SymbolSize(false, l); got != full[l-1] {
			t.Errorf("full L%d: size %d want %d", l, got, full[l-1])
		}
	}
	seen := map[int]int{}
	for l := 1; l <= 32; l++ {
		seen[SymbolSize(false, l)]++
	}
	for s, n := range seen {
		if n != 1 {
			t.Errorf("full size %d occurs %d times", s, n)
		}
	}
}

func TestTotalBitsAndWordSize(t *testing.T) {
	cases := []struct {
		compact bool
		l, bits int
		ws      int
	}{
		{true, 1, 104, 6}, {true, 2, 240, 6}, {true, 3, 408, 8}, {true, 4, 608, 8},
		{false, 1, 128, 6}, {false, 2, 288, 6}, {false, 3, 480, 8}, {false, 4, 704, 8},
		{false, 8, 1920, 8}, {false, 9, 2304, 10}, {false, 22, 10208, 10}, {false, 23, 11040, 12},
		{false, 32, 19968, 12},
	}
	for _, c := range cases {
		if got := TotalBits(c.compact, c.l); got != c.bits {
			t.Errorf("TotalBits(%v,%d)=%d want %d", c.compact, c.l, got, c.bits)
		}
		if got := WordSizeFor(c.l); got != c.ws {
			t.Errorf("WordSizeFor(%d)=%d want %d", c.l, got, c.ws)
		}
	}
}

// Every module of every format must be claimed by exactly one of: function
// pattern, mode message, data.  buildGeom panics otherwise.
func TestGeometryPartition(t *testing.T) {
	check := func(compact bool, l int) {
		gm := getGeom(compact, l)
		if got := len(gm.fixedIdx) + len(gm.mode) + len(gm.data); got != gm.size*gm.size {
			t.Errorf("%s: %d modules assigned, want %d", gm.name(), got, gm.size*gm.size)
		}
		if len(gm.data) != TotalBits(compact, l) {
			t.Errorf("%s: %d data modules, want %d", gm.name(), len(gm.data), TotalBits(compact, l))
		}
		want := 40
		if compact {
			want = 28
		}
		if len(gm.mode) != want {
			t.Errorf("%s: %d mode modules", gm.name(), len(gm.mode))
		}
	}
	for l := 1; l <= 4; l++ {
		check(true, l)
	}
	for l := 1; l <= 32; l++ {
		check(false, l)
	}
}

func TestFields(t *testing.T) {
	for _, ws := range []int{4, 6, 8, 10, 12} {
		f := fieldFor(ws)
		seen := make(map[uint16]bool)
		for i := 0; i < f.n; i++ {
			if seen[f.exp[i]] || f.exp[i] == 0 {
				t.Fatalf("GF(2^%d): alpha^%d repeats", ws, i)
			}
			seen[f.exp[i]] = true
		}
	}
}

// ---------------------------------------------------------------- helpers

func encodeGrid(t testing.TB, data []byte, ecc, layers int) (*grid.Grid, error) {
	bc, err := aztec.Encode(data, ecc, layers)
	if err != nil {
		return nil, err
	}
	g, ok, bx, by := grid.FromImage(bc, color.Black, color.White)
	if !ok {
		t.Fatalf("pixel (%d,%d) is neither color.Black nor color.White", bx, by)
	}
	return g, nil
}

// KNOWN LIBRARY DEFECT (kept visible, not worked around in Decode): for
// full-range symbols with 12 and 27 layers the encoder does not draw the
// outermost reference-grid lines (distance 32 resp. 64 from the centre).
// decodeStrictOrKnown runs the strict decoder; only when it rejects such a
// symbol because of the reference grid, the remaining checks are done with
// the reference grid ignored and the defect is logged.
var refGridDefect sync.Map // layers -> wrong-module count

func decodeStrictOrKnown(t testing.TB, g *grid.Grid) (*Result, error) {
	res, err := Decode(g)
	if err == nil {
		return res, nil
	}
	if (g.W == 67 || g.W == 131) && strings.Contains(err.Error(), "reference grid module") {
		res2, err2 := DecodeWith(g, Options{IgnoreReferenceGrid: true})
		if err2 == nil && !res2.Compact && (res2.Layers == 12 || res2.Layers == 27) && res2.RefGridErrors > 0 {
			if _, dup := refGridDefect.LoadOrStore(res2.Layers, res2.RefGridErrors); !dup {
				t.Logf("KNOWN LIBRARY DEFECT: full L%d (side %d): strict Decode fails: %v; %d reference-grid modules wrong",
					res2.Layers, g.W, err, res2.RefGridErrors)
			}
			return res2, nil
		}
	}
	return res, err
}

func roundTrip(t *testing.T, name string, data []byte, ecc, layers int) *Result {
	t.Helper()
	g, err := encodeGrid(t, data, ecc, layers)
	if err != nil {
		t.Errorf("%s: Encode(len=%d, ecc=%d, layers=%d): %v", name, len(data), ecc, layers, err)
		return nil
	}
	res, err := decodeStrictOrKnown(t, g)
	if err != nil {
		t.Errorf("%s: Decode(len=%d %q, ecc=%d, layers=%d) size %d: %v", name, len(data), clip(data), ecc, layers, g.W, err)
		return nil
	}
	if !bytes.Equal(res.Content, data) {
		t.Errorf("%s: content mismatch (ecc=%d layers=%d)\n got  %q\n want %q", name, ecc, layers, clip(res.Content), clip(data))
		return nil
	}
	if res.TotalWords != res.DataWords+res.CheckWords || res.StuffedBits != res.DataWords*res.WordSize {
		t.Errorf("%s: inconsistent result %+v", name, res)
	}
	return res
}

func clip(b []byte) []byte {
	if len(b) > 80 {
		return b[:80]
	}
	return b
}

func binFiller(n int) []byte {
	b := make([]byte, n)
	for i := range b {
		b[i] = byte(0x80 + (i*37+i/7)%0x7F)
	}
	return b
}

func upperFiller(n int) []byte {
	b := make([]byte, n)
	for i := range b {
		b[i] = byte('A' + (i*7)%26)
	}
	return b
}

func digitFiller(n int) []byte {
	b := make([]byte, n)
	for i := range b {
		b[i] = byte('0' + (i*3)%10)
	}
	return b
}

// ---------------------------------------------------------------- round trips

func TestRoundTripSingleBytes(t *testing.T) {
	for b := 0; b < 256; b++ {
		roundTrip(t, fmt.Sprintf("byte %#02x", b), []byte{byte(b)}, aztec.DEFAULT_EC_PERCENT, 0)
	}
	// pairs with a fixed neighbour to exercise shifts out of each mode
	for b := 0; b < 256; b++ {
		for _, ctx := range []string{"A%sA", "a%sa", "1%s1", "\x01%s\x01", "a%sB", "11%s,,"} {
			s := strings.Replace(ctx, "%s", string([]byte{byte(b)}), 1)
			roundTrip(t, fmt.Sprintf("ctx %q", s), []byte(s), aztec.DEFAULT_EC_PERCENT, 0)
		}
	}
}

func TestRoundTripTexts(t *testing.T) {
	counts := map[string]int{}
	texts := []string{
		"A", "Z", " ", "ABCDEFGHIJKLMNOPQRSTUVWXYZ ",
		"abcdefghijklmnopqrstuvwxyz ", "a", "z",
		"0123456789", "0", "9", "3.14", "1,2,3 4", "12345678901234567890",
		"\x01\x02\x03\x04\x05\x06\x07\x08\x09\x0a\x0b\x0c\x0d", "\x1b\x1c\x1d\x1e\x1f", "@\\^_`|~\x7f",
		"\x01@\x02\\\x03^", "\t\t\t\t", "\n",
		"!\"#$%&'()*+,-./:;<=>?[]{}", "!", "}", "{[(<>)]}", "!!!!!!!!!!", "\r", "\r\r\r\r",
		"\r\n", ". ", ", ", ": ", "\r\n\r\n\r\n", "A. B, C: D\r\nE", "a. b, c: d\r\ne", "1. 2, 3: 4\r\n5",
		"x: y. z, w\r\n", ". . . . . . ", ", , , , ,", ": : : :", ".  ,  :  ",
		"Hello World", "hello WORLD", "Hello, World!", "HELLO world 12345 HELLO", "abcABCabcABC",
		"aBcDeFgHiJ", "a1B2c3D4", "1a2b3c", "1A2B3C", "12A34B56", "A1", "a1", "1a", "1A",
		"abc\x01\x02def", "ABC\x01DEF", "123\x01456", "\x01\x02ABC", "\x01\x02abc", "\x01\x02123", "\x01!!!!!!\x02", "\x01.\x02",
		"ab!!!!!!!!cd", "AB((((((((CD", "12[[[[[[[[34", "!!!!!!!!AB", "!!!!!!!!ab", "!!!!!!!!12",
		"The quick brown fox jumps over the lazy dog. 0123456789, (42) [x] {y} <z>: @home\r\nTAB\there\x7f",
		"http://www.example.com/path?query=1&other=2#frag", "user@example.com", "A\x80B", "a\xffb", "1\x80\x812",
		"\x80", "\x80\x81", "ABC\x80\x81\x82abc\x90\x91123\xa0!", "\xe2\x82\xac 100", "\x00", "\x00\x00\x00", "A\x00B",
		"!\x80!", "\x01\x80\x01", "9\xff9\xff9",
		strings.Repeat("A", 100), strings.Repeat("a", 100), strings.Repeat("7", 100), strings.Repeat("\x05", 100), strings.Repeat("?", 100),
		strings.Repeat("Ab1!\x02\x90", 40),
		strings.Repeat(". ", 50), strings.Repeat("\r\n", 50), strings.Repeat("A, b: 1. ", 30),
		strings.Repeat(" ", 40), "a b c D E F 1 2 3 \x01 \x02 ! ?",
		strings.Repeat("\xff", 40), strings.Repeat("\x00", 40), // bit stuffing stress
		strings.Repeat("ZZZZ", 20), strings.Repeat("\x7f", 40), strings.Repeat("}", 40), strings.Repeat("..", 30), strings.Repeat("99", 30),
	}
	for _, s := range texts {
		if res := roundTrip(t, "text", []byte(s), aztec.DEFAULT_EC_PERCENT, 0); res != nil {
			for _, m := range res.Modes {
				counts[m]++
			}
		}
	}
	// every transition a sane encoder can emit should have been seen
	for _, m := range []string{"U>L", "U>M", "U>D", "U^P", "L^U", "L>M", "L>D", "L^P", "M>L", "M>U", "M>P", "M^P",
		"P>U", "D>U", "D^U", "D^P", "BS5"} {
		if counts[m] == 0 {
			t.Logf("transition %s never exercised by the text corpus", m)
		}
	}
	t.Logf("transition counts: %v", counts)
}

func TestRoundTripBinaryRuns(t *testing.T) {
	for _, n := range []int{1, 2, 30, 31, 32, 33, 61, 62, 63, 64, 65, 100, 2000} {
		data := binFiller(n)
		ecc := aztec.DEFAULT_EC_PERCENT
		if n == 2000 {
			ecc = 10 // 2000 bytes at 33% exceed the largest symbol
		}
		res := roundTrip(t, fmt.Sprintf("binary %d", n), data, ecc, 0)
		if res != nil {
			t.Logf("binary %4d: %v compact=%v L=%d", n, res.Modes, res.Compact, res.Layers)
		}
		// embedded in text, before and after
		for _, pre := range []string{"", "AB", "ab", "12", "\x01", "a!"} {
			for _, post := range []string{"", "AB", "ab", "12", "!"} {
				if n > 100 {
					continue
				}
				d := append(append([]byte(pre), data...), post...)
				roundTrip(t, fmt.Sprintf("binary %q+%d+%q", pre, n, post), d, aztec.DEFAULT_EC_PERCENT, 0)
			}
		}
	}
	// long run needs the 11-bit length
	res := roundTrip(t, "binary 2000", binFiller(2000), 5, 0)
	if res != nil {
		found := false
		for _, m := range res.Modes {
			if m == "BS11" {
				found = true
			}
		}
		if !found {
			t.Errorf("2000 byte run decoded without an 11-bit binary shift: %v", res.Modes)
		}
	}
}

func TestRoundTripExplicitLayers(t *testing.T) {
	for _, req := range layerRequests() {
		compact := req < 0
		l := req
		if compact {
			l = -req
		}
		capBits := TotalBits(compact, l) / WordSizeFor(l) * WordSizeFor(l)
		// a small payload and one filling roughly 60% of the symbol
		payloads := [][]byte{[]byte("A"), []byte("Hello, World 123!")}
		// capacity at 33% ecc: data*1.33+11 <= capBits
		nb := (capBits - 11) * 100 / 133
		if n := nb/5 - 4; n > 0 {
			payloads = append(payloads, upperFiller(n))
		}
		if n := nb/4 - 6; n > 0 {
			payloads = append(payloads, digitFiller(n))
		}
		if n := nb/8 - 6; n > 0 {
			payloads = append(payloads, binFiller(n))
		}
		okCount := 0
		for _, p := range payloads {
			g, err := encodeGrid(t, p, aztec.DEFAULT_EC_PERCENT, req)
			if err != nil {
				t.Logf("layers=%d len=%d: Encode refuses: %v", req, len(p), err)
				continue
			}
			res, err := decodeStrictOrKnown(t, g)
			if err != nil {
				t.Errorf("layers=%d len=%d: Decode: %v", req, len(p), err)
				continue
			}
			okCount++
			if res.Compact != compact || res.Layers != l {
				t.Errorf("layers=%d len=%d: got compact=%v L=%d", req, len(p), res.Compact, res.Layers)
			}
			if g.W != SymbolSize(compact, l) {
				t.Errorf("layers=%d: grid %d want %d", req, g.W, SymbolSize(compact, l))
			}
			if !bytes.Equal(res.Content, p) {
				t.Errorf("layers=%d len=%d: content mismatch", req, len(p))
			}
		}
		if okCount == 0 {
			t.Errorf("layers=%d: no payload could be encoded", req)
		}
	}
}

func layerRequests() []int {
	var r []int
	for l := -4; l <= -1; l++ {
		r = append(r, l)
	}
	for l := 1; l <= 32; l++ {
		r = append(r, l)
	}
	return r
}

func TestRoundTripECC(t *testing.T) {
	payloads := [][]byte{[]byte("A"), []byte("Hello, World 123!"), upperFiller(200), digitFiller(333), binFiller(150),
		[]byte(strings.Repeat("Mixed Case 42, \x01\x02 [ok]\r\n", 12))}
	for _, ecc := range []int{0, 23, 33, 50, 90} {
		for _, p := range payloads {
			res := roundTrip(t, fmt.Sprintf("ecc %d", ecc), p, ecc, 0)
			if res == nil {
				continue
			}
			// the standard sizing rule: check words must cover ecc% of the data bits (+3 words)
			if res.CheckWords*res.WordSize < res.StuffedBits*ecc/100 {
				t.Logf("ecc %d%% len=%d: only %d check words for %d data words", ecc, len(p), res.CheckWords, res.DataWords)
			}
		}
	}
}

func TestRoundTripAutoSizing(t *testing.T) {
	type job struct {
		name string
		data []byte
	}
	var jobs []job
	for n := 1; n <= 1800; n += 37 {
		jobs = append(jobs, job{"upper", upperFiller(n)}, job{"digit", digitFiller(n)}, job{"binary", binFiller(n)})
	}
	var mu sync.Mutex
	seen := map[string]bool{}
	var wg sync.WaitGroup
	sem := make(chan struct{}, 8)
	for _, j := range jobs {
		wg.Add(1)
		sem <- struct{}{}
		go func(j job) {
			defer wg.Done()
			defer func() { <-sem }()
			g, err := encodeGrid(t, j.data, aztec.DEFAULT_EC_PERCENT, 0)
			if err != nil {
				t.Errorf("%s len=%d: Encode: %v", j.name, len(j.data), err)
				return
			}
			res, err := decodeStrictOrKnown(t, g)
			if err != nil {
				t.Errorf("%s len=%d size=%d: Decode: %v", j.name, len(j.data), g.W, err)
				return
			}
			if !bytes.Equal(res.Content, j.data) {
				t.Errorf("%s len=%d: content mismatch", j.name, len(j.data))
			}
			mu.Lock()
			if res.Compact {
				seen[fmt.Sprintf("c%d", res.Layers)] = true
			} else {
				seen[fmt.Sprintf("f%02d", res.Layers)] = true
			}
			mu.Unlock()
		}(j)
	}
	wg.Wait()
	t.Logf("%d distinct formats chosen automatically", len(seen))
}

// Every byte-length 0..40 of several fillers, all ecc levels: dense coverage of
// the padding / stuffing tail logic on small symbols.
func TestRoundTripSmallDense(t *testing.T) {
	for n := 1; n <= 60; n++ {
		for _, f := range []func(int) []byte{upperFiller, digitFiller, binFiller,
			func(n int) []byte { return bytes.Repeat([]byte{0xFF}, n) },
			func(n int) []byte { return bytes.Repeat([]byte{0}, n) },
			func(n int) []byte { return bytes.Repeat([]byte{'Z'}, n) },
			func(n int) []byte { return bytes.Repeat([]byte{'.'}, n) },
			func(n int) []byte { return []byte(strings.Repeat("aB1!\x01", n))[:n] },
		} {
			for _, ecc := range []int{0, 33, 90} {
				roundTrip(t, "dense", f(n), ecc, 0)
			}
		}
	}
}

func TestEmptyPayloadObservation(t *testing.T) {
	g, err := encodeGrid(t, nil, aztec.DEFAULT_EC_PERCENT, 0)
	if err != nil {
		t.Logf("OBSERVATION empty payload: Encode error: %v", err)
		return
	}
	res, err := Decode(g)
	if err != nil {
		t.Logf("OBSERVATION empty payload: size %d, Decode rejects: %v", g.W, err)
		return
	}
	t.Logf("OBSERVATION empty payload: decodes: %+v", res)
}

// ---------------------------------------------------------------- negative

func flipAndExpectFailure(t *testing.T, g *grid.Grid, x, y int, what string) {
	t.Helper()
	g.Set(x, y, !g.At(x, y))
	res, err := Decode(g)
	g.Set(x, y, !g.At(x, y))
	if err == nil {
		t.Errorf("%s: flipping module (%d,%d) still decodes to %q", what, x, y, clip(res.Content))
	}
}

func TestNegativeSingleModuleFlips(t *testing.T) {
	type sym struct {
		data   []byte
		layers int
	}
	for _, s := range []sym{
		{[]byte("HELLO"), -1},
		{[]byte("Hello, World 123!"), -3},
		{[]byte("Hello, World 123!"), 2},
		{[]byte("Reference grid lines are present in this one: 0123456789"), 5},
		{binFiller(120), 0},
	} {
		g, err := encodeGrid(t, s.data, aztec.DEFAULT_EC_PERCENT, s.layers)
		if err != nil {
			t.Fatal(err)
		}
		res, err := Decode(g)
		if err != nil {
			t.Fatalf("baseline: %v", err)
		}
		gm := getGeom(res.Compact, res.Layers)
		c := g.W / 2
		name := gm.name()
		// targeted flips
		flipAndExpectFailure(t, g, c, c, name+" bull's eye centre")
		flipAndExpectFailure(t, g, c+1, c, name+" bull's eye ring 1")
		flipAndExpectFailure(t, g, c-2, c+2, name+" bull's eye ring 2 corner")
		s0 := 5
		if !res.Compact {
			s0 = 7
			flipAndExpectFailure(t, g, c+6, c-3, name+" bull's eye ring 6")
			flipAndExpectFailure(t, g, c, c-7, name+" reference module in the mode ring")
			flipAndExpectFailure(t, g, c, 0, name+" reference grid centre column top")
			flipAndExpectFailure(t, g, g.W-1, c, name+" reference grid centre row right")
			if g.W > 2*16+1 {
				flipAndExpectFailure(t, g, c-16, 3, name+" reference grid column -16")
				flipAndExpectFailure(t, g, 4, c+16, name+" reference grid row +16")
				flipAndExpectFailure(t, g, c+16, c+16, name+" reference grid crossing")
			}
		}
		for _, d := range [][2]int{{-s0, -s0}, {-s0 + 1, -s0}, {-s0, -s0 + 1}, {s0, -s0}, {s0, -s0 + 1}, {s0 - 1, -s0},
			{s0, s0}, {s0, s0 - 1}, {s0 - 1, s0}, {-s0, s0}, {-s0 + 1, s0}, {-s0, s0 - 1}} {
			flipAndExpectFailure(t, g, c+d[0], c+d[1], name+" orientation mark")
		}
		for i, idx := range gm.mode {
			flipAndExpectFailure(t, g, int(idx)%g.W, int(idx)/g.W, fmt.Sprintf("%s mode message bit %d", name, i))
		}
		flipAndExpectFailure(t, g, 0, 0, name+" first data module")
		flipAndExpectFailure(t, g, g.W-1, g.H-1, name+" data module bottom right")
		// exhaustive: no single module flip may go unnoticed
		for y := 0; y < g.H; y++ {
			for x := 0; x < g.W; x++ {
				flipAndExpectFailure(t, g, x, y, name+" exhaustive")
			}
		}
	}
}

func TestNegativeSizes(t *testing.T) {
	for _, n := range []int{0, 1, 11, 14, 16, 17, 21, 33, 35, 39, 152, 155} {
		g := grid.New(n, n)
		if _, err := Decode(g); err == nil {
			t.Errorf("size %d accepted", n)
		}
	}
	if _, err := Decode(grid.New(15, 19)); err == nil {
		t.Errorf("non-square accepted")
	}
}

// A hand-made bit stream checks the high-level decoder independently of any encoder.
func TestHighLevelDirect(t *testing.T) {
	bitsOf := func(s string) []uint8 {
		var b []uint8
		for _, c := range s {
			switch c {
			case '0':
				b = append(b, 0)
			case '1':
				b = append(b, 1)
			}
		}
		return b
	}
	cases := []struct {
		bits  string
		ws    int
		want  string
		modes string
		fail  bool
	}{
		{"00010 00011", 6, "AB", "", false},
		{"00010 111", 6, "A", "", false},             // 3 bits of padding
		{"00010 11111", 6, "A", "", false},           // 5 ones < word size 6: padding
		{"00010 111111", 6, "", "", true},            // 6 ones cannot be padding with 6-bit words
		{"00010 11111 11111 1", 12, "A", "", false},  // 11 ones are legal padding for 12-bit words
		{"00010 110", 6, "", "", true},               // garbage tail
		{"00010 000", 6, "", "", true},               // zero tail
		{"00000 00110", 6, "!", "U^P", false},        // P/S !
		{"00000 00110 00010", 6, "!A", "U^P", false}, // back to upper
		{"00000", 6, "", "", true},                   // dangling shift
		{"00000 111", 6, "", "", true},               // padding inside a shift
		{"00000 00000", 6, "", "", true},             // FLG(n)
		{"11100 00010 11100 00010", 6, "aA", "U>L L^U", false},
		{"11100 11100 00011 00011", 6, "Bb", "U>L L^U", false},
		{"11110 0010 0011 1111 00010 0100", 6, "01A2", "U>D D^U", false},
		{"11110 0010 1110 00010", 6, "0A", "U>D D>U", false},
		{"11110 0010 0000 00011 0011", 6, "0. 1", "U>D D^P", false},
		{"11101 00010 11110 00110 11111 00010", 6, "\x01!A", "U>M M>P P>U", false},
		{"11101 11101 00010", 6, "A", "U>M M>U", false},
		{"11101 11100 00010", 6, "a", "U>M M>L", false},
		{"11111 00001 01000001 00010", 6, "AA", "BS5", false},
		{"11111 00010 01000001", 6, "", "", true},                                   // run cut short
		{"11111 0000", 6, "", "", true},                                             // length cut short (not all ones)
		{"11111 00000 0000000", 6, "", "", true},                                    // long length cut short
		{"11110 1111 11111 00001 10000000 00010", 6, "\x80A", "U>D D^U BS5", false}, // U/S B/S returns to Upper
	}
	for _, c := range cases {
		r := &Result{WordSize: c.ws}
		err := r.highLevel(bitsOf(c.bits))
		if c.fail {
			if err == nil {
				t.Errorf("%q: expected failure, got %q", c.bits, r.Content)
			}
			continue
		}
		if err != nil {
			t.Errorf("%q: %v", c.bits, err)
			continue
		}
		if string(r.Content) != c.want || strings.Join(r.Modes, " ") != c.modes {
			t.Errorf("%q: got %q %v want %q %q", c.bits, r.Content, r.Modes, c.want, c.modes)
		}
	}
	// 31+n bytes with the 11-bit length
	var b []uint8
	b = append(b, bitsOf("11111 00000 00000000001")...)
	for i := 0; i < 32; i++ {
		b = append(b, bitsOf("01011010")...)
	}
	r := &Result{WordSize: 8}
	if err := r.highLevel(b); err != nil || len(r.Content) != 32 || r.Modes[0] != "BS11" {
		t.Errorf("BS11: %v %q %v", err, r.Content, r.Modes)
	}
}

// ---------------------------------------------------------------- concurrency & speed

func TestConcurrentDecode(t *testing.T) {
	var wg sync.WaitGroup
	for w := 0; w < 16; w++ {
		wg.Add(1)
		go func(w int) {
			defer wg.Done()
			for i := 0; i < 40; i++ {
				data := upperFiller(1 + (w*53+i*29)%900)
				g, err := encodeGrid(t, data, aztec.DEFAULT_EC_PERCENT, 0)
				if err != nil {
					t.Error(err)
					return
				}
				res, err := decodeStrictOrKnown(t, g)
				if err != nil || !bytes.Equal(res.Content, data) {
					t.Errorf("concurrent decode failed: %v", err)
					return
				}
			}
		}(w)
	}
	wg.Wait()
}

func TestDecodeTiming(t *testing.T) {
	for _, c := range []struct {
		data   []byte
		layers int
		limit  time.Duration
	}{
		{[]byte("HELLO"), -1, 30 * time.Microsecond},
		{binFiller(1400), 32, 5 * time.Millisecond},
	} {
		g, err := encodeGrid(t, c.data, aztec.DEFAULT_EC_PERCENT, c.layers)
		if err != nil {
			t.Fatal(err)
		}
		if _, err := Decode(g); err != nil {
			t.Fatal(err)
		}
		n := 200
		start := time.Now()
		for i := 0; i < n; i++ {
			Decode(g)
		}
		per := time.Since(start) / time.Duration(n)
		t.Logf("layers=%d size=%d: %v per Decode", c.layers, g.W, per)
		if per > c.limit {
			t.Logf("WARNING: slower than the %v target", c.limit)
		}
	}
}

func benchDecode(b *testing.B, data []byte, layers int) {
	g, err := encodeGrid(b, data, aztec.DEFAULT_EC_PERCENT, layers)
	if err != nil {
		b.Fatal(err)
	}
	b.ReportAllocs()
	b.ResetTimer()
	for i := 0; i < b.N; i++ {
		if _, err := Decode(g); err != nil {
			b.Fatal(err)
		}
	}
}

func BenchmarkDecodeCompact1(b *testing.B) { benchDecode(b, []byte("HELLO"), -1) }
func BenchmarkDecodeCompact4(b *testing.B) { benchDecode(b, upperFiller(60), -4) }
func BenchmarkDecodeFull5(b *testing.B)    { benchDecode(b, upperFiller(100), 5) }
func BenchmarkDecodeFull32(b *testing.B)   { benchDecode(b, binFiller(1400), 32) }

func BenchmarkDecodeFull32Small(b *testing.B) { benchDecode(b, []byte("HELLO"), 32) }

func TestIgnoreReferenceGridOption(t *testing.T) {
	g, err := encodeGrid(t, []byte("Reference grid option 12345"), aztec.DEFAULT_EC_PERCENT, 6)
	if err != nil {
		t.Fatal(err)
	}
	lay := LayoutOf(false, 6)
	if lay.Size != g.W || len(lay.Data)+len(lay.Mode)+len(lay.Fixed) != g.W*g.H {
		t.Fatalf("layout inconsistent")
	}
	opt := Options{IgnoreReferenceGrid: true}
	if res, err := DecodeWith(g, opt); err != nil || res.RefGridErrors != 0 {
		t.Fatalf("baseline: %v %+v", err, res)
	}
	c := g.W / 2
	// a reference-grid flip is tolerated and counted ...
	g.Set(c+16, 2, !g.At(c+16, 2))
	if _, err := Decode(g); err == nil {
		t.Errorf("strict decoder accepted a damaged reference grid")
	}
	if res, err := DecodeWith(g, opt); err != nil || res.RefGridErrors != 1 {
		t.Errorf("lenient: %v %+v", err, res)
	}
	g.Set(c+16, 2, !g.At(c+16, 2))
	// ... but the core is still verified
	for _, p := range [][2]int{{c, c}, {c + 3, c - 1}, {c - 7, c - 7}, {c + 7, c + 6}, {c, c + 7}} {
		g.Set(p[0], p[1], !g.At(p[0], p[1]))
		if _, err := DecodeWith(g, opt); err == nil {
			t.Errorf("lenient decoder accepted a damaged core module %v", p)
		}
		g.Set(p[0], p[1], !g.At(p[0], p[1]))
	}
}
