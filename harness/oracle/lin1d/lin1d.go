// Package lin1d holds strict reference decoders for the linear symbologies. They read a
// row of modules (true = bar) and share no table with /repo: every table below is an own
// transcription of the respective standard and is validated structurally in init().
package lin1d

import (
	"errors"
	"fmt"
)

// runs returns the run lengths of row, starting with a bar. The row must start and end with a bar.
func runs(row []bool) ([]int, error) {
	if len(row) == 0 {
		return nil, errors.New("empty row")
	}
	if !row[0] {
		return nil, errors.New("row does not start with a bar")
	}
	if !row[len(row)-1] {
		return nil, errors.New("row does not end with a bar")
	}
	var out []int
	cur, n := true, 0
	for _, v := range row {
		if v == cur {
			n++
		} else {
			out = append(out, n)
			cur, n = v, 1
		}
	}
	return append(out, n), nil
}

func bits(row []bool, from, n int) (int, bool) {
	if from+n > len(row) {
		return 0, false
	}
	v := 0
	for i := 0; i < n; i++ {
		v <<= 1
		if row[from+i] {
			v |= 1
		}
	}
	return v, true
}

// ---------------------------------------------------------------------------
// Code 128

var c128Widths = [107]string{
	"212222", "222122", "222221", "121223", "121322", "131222", "122213", "122312", "132212", "221213",
	"221312", "231212", "112232", "122132", "122231", "113222", "123122", "123221", "223211", "221132",
	"221231", "213212", "223112", "312131", "311222", "321122", "321221", "312212", "322112", "322211",
	"212123", "212321", "232121", "111323", "131123", "131321", "112313", "132113", "132311", "211313",
	"231113", "231311", "112133", "112331", "132131", "113123", "113321", "133121", "313121", "211331",
	"231131", "213113", "213311", "213131", "311123", "311321", "331121", "312113", "312311", "332111",
	"314111", "221411", "431111", "111224", "111422", "121124", "121421", "141122", "141221", "112214",
	"112412", "122114", "122411", "142112", "142211", "241211", "221114", "413111", "241112", "134111",
	"111242", "121142", "121241", "114212", "124112", "124211", "411212", "421112", "421211", "212141",
	"214121", "412121", "111143", "111341", "131141", "114113", "114311", "411113", "411311", "113141",
	"114131", "311141", "411131", "211412", "211214", "211232", "2331112",
}

var c128Inv = map[int]int{} // 11-bit pattern -> value (0..105)
var c128Stop int            // 13-bit stop pattern

func widthsToBits(w string) (v, n int) {
	bar := true
	for _, ch := range w {
		k := int(ch - '0')
		for i := 0; i < k; i++ {
			v <<= 1
			if bar {
				v |= 1
			}
			n++
		}
		bar = !bar
	}
	return
}

const (
	C128FNC1 = 'ñ'
	C128FNC2 = 'ò'
	C128FNC3 = 'ó'
	C128FNC4 = 'ô'
)

// Code128 is the structure record of a decoded symbol.
type Code128 struct {
	Runes  []rune
	Values []int  // start character and data characters (no check character, no stop)
	Check  int    // value of the check character, -1 if none was expected
	WantCk int    // (start + sum i*v_i) mod 103 computed from Values
	Sets   string // the sequence of code sets used, e.g. "BCB"
	Shifts int
}

// DecodeCode128 decodes a complete symbol. withCheck tells whether the last character
// before the stop pattern is a check character.
func DecodeCode128(row []bool, withCheck bool) (*Code128, error) {
	n := len(row)
	if n < 11+13 || (n-13)%11 != 0 {
		return nil, fmt.Errorf("code128: %d modules is not k*11+13", n)
	}
	stop, _ := bits(row, n-13, 13)
	if stop != c128Stop {
		return nil, fmt.Errorf("code128: stop pattern %013b", stop)
	}
	var vals []int
	for p := 0; p < n-13; p += 11 {
		b, _ := bits(row, p, 11)
		v, ok := c128Inv[b]
		if !ok {
			return nil, fmt.Errorf("code128: unknown pattern %011b at module %d", b, p)
		}
		vals = append(vals, v)
	}
	res := &Code128{Check: -1}
	if withCheck {
		if len(vals) < 2 {
			return nil, errors.New("code128: no room for a check character")
		}
		res.Check = vals[len(vals)-1]
		vals = vals[:len(vals)-1]
	}
	res.Values = vals
	sum := vals[0]
	for i := 1; i < len(vals); i++ {
		sum += i * vals[i]
	}
	res.WantCk = sum % 103
	if withCheck && res.Check != res.WantCk {
		return nil, fmt.Errorf("code128: check character %d, computed %d", res.Check, res.WantCk)
	}
	var set byte
	switch vals[0] {
	case 103:
		set = 'A'
	case 104:
		set = 'B'
	case 105:
		set = 'C'
	default:
		return nil, fmt.Errorf("code128: first character %d is not a start character", vals[0])
	}
	res.Sets = string(set)
	shift := false
	for i := 1; i < len(vals); i++ {
		v := vals[i]
		if v >= 103 {
			return nil, fmt.Errorf("code128: start/stop value %d inside the symbol at position %d", v, i)
		}
		cur := set
		if shift {
			if cur == 'A' {
				cur = 'B'
			} else {
				cur = 'A'
			}
			shift = false
			if v >= 96 {
				return nil, fmt.Errorf("code128: shift followed by function/code character %d", v)
			}
		}
		switch cur {
		case 'C':
			switch {
			case v < 100:
				res.Runes = append(res.Runes, rune('0'+v/10), rune('0'+v%10))
			case v == 100:
				set = 'B'
				res.Sets += "B"
			case v == 101:
				set = 'A'
				res.Sets += "A"
			case v == 102:
				res.Runes = append(res.Runes, C128FNC1)
			}
		case 'A', 'B':
			switch {
			case v < 64:
				res.Runes = append(res.Runes, rune(32+v))
			case v < 96:
				if cur == 'A' {
					res.Runes = append(res.Runes, rune(v-64))
				} else {
					res.Runes = append(res.Runes, rune(32+v))
				}
			case v == 96:
				res.Runes = append(res.Runes, C128FNC3)
			case v == 97:
				res.Runes = append(res.Runes, C128FNC2)
			case v == 98:
				if set == 'C' {
					return nil, errors.New("code128: shift in code set C")
				}
				shift = true
				res.Shifts++
			case v == 99:
				set = 'C'
				res.Sets += "C"
			case v == 100:
				if cur == 'B' {
					res.Runes = append(res.Runes, C128FNC4)
				} else {
					set = 'B'
					res.Sets += "B"
				}
			case v == 101:
				if cur == 'A' {
					res.Runes = append(res.Runes, C128FNC4)
				} else {
					set = 'A'
					res.Sets += "A"
				}
			case v == 102:
				res.Runes = append(res.Runes, C128FNC1)
			}
		}
	}
	if shift {
		return nil, errors.New("code128: dangling shift at the end")
	}
	return res, nil
}

// ---------------------------------------------------------------------------
// EAN-8 / EAN-13

var eanL = [10]int{0b0001101, 0b0011001, 0b0010011, 0b0111101, 0b0100011, 0b0110001, 0b0101111, 0b0111011, 0b0110111, 0b0001011}
var eanR, eanG [10]int
var eanFirst = [10]string{"LLLLLL", "LLGLGG", "LLGGLG", "LLGGGL", "LGLLGG", "LGGLLG", "LGGGLL", "LGLGLG", "LGLGGL", "LGGLGL"}

func rev7(v int) int {
	r := 0
	for i := 0; i < 7; i++ {
		r = r<<1 | (v>>uint(i))&1
	}
	return r
}

func lookup(tbl *[10]int, v int) int {
	for d, p := range tbl {
		if p == v {
			return d
		}
	}
	return -1
}

// DecodeEAN decodes an EAN-8 (67 modules) or EAN-13 (95 modules) row to its digits.
func DecodeEAN(row []bool) (string, error) {
	var left int
	switch len(row) {
	case 67:
		left = 4
	case 95:
		left = 6
	default:
		return "", fmt.Errorf("ean: %d modules is neither 67 nor 95", len(row))
	}
	if g, _ := bits(row, 0, 3); g != 0b101 {
		return "", errors.New("ean: left guard")
	}
	if g, _ := bits(row, 3+7*left, 5); g != 0b01010 {
		return "", errors.New("ean: centre guard")
	}
	if g, _ := bits(row, len(row)-3, 3); g != 0b101 {
		return "", errors.New("ean: right guard")
	}
	digits := make([]byte, 0, 13)
	parity := make([]byte, 0, 6)
	for i := 0; i < left; i++ {
		v, _ := bits(row, 3+7*i, 7)
		if d := lookup(&eanL, v); d >= 0 {
			digits = append(digits, byte('0'+d))
			parity = append(parity, 'L')
		} else if d := lookup(&eanG, v); d >= 0 {
			digits = append(digits, byte('0'+d))
			parity = append(parity, 'G')
		} else {
			return "", fmt.Errorf("ean: left digit %d has pattern %07b", i, v)
		}
	}
	for i := 0; i < left; i++ {
		v, _ := bits(row, 3+7*left+5+7*i, 7)
		d := lookup(&eanR, v)
		if d < 0 {
			return "", fmt.Errorf("ean: right digit %d has pattern %07b", i, v)
		}
		digits = append(digits, byte('0'+d))
	}
	if left == 4 {
		if string(parity) != "LLLL" {
			return "", fmt.Errorf("ean-8: left half uses parity %s", parity)
		}
		return string(digits), nil
	}
	for d, p := range eanFirst {
		if p == string(parity) {
			return string(rune('0'+d)) + string(digits), nil
		}
	}
	return "", fmt.Errorf("ean-13: parity pattern %s encodes no first digit", parity)
}

// EANCheckDigit returns the GS1 mod-10 check digit for the digits (without check digit).
func EANCheckDigit(digits string) byte {
	sum := 0
	w := 3
	for i := len(digits) - 1; i >= 0; i-- {
		sum += int(digits[i]-'0') * w
		w = 4 - w
	}
	return byte('0' + (10-sum%10)%10)
}

// ---------------------------------------------------------------------------
// Code 39

const C39Alphabet = "0123456789ABCDEFGHIJKLMNOPQRSTUVWXYZ-. $/+%"

var c39Wide = [44]int{
	0x034, 0x121, 0x061, 0x160, 0x031, 0x130, 0x070, 0x025, 0x124, 0x064,
	0x109, 0x049, 0x148, 0x019, 0x118, 0x058, 0x00D, 0x10C, 0x04C, 0x01C,
	0x103, 0x043, 0x142, 0x013, 0x112, 0x052, 0x007, 0x106, 0x046, 0x016,
	0x181, 0x0C1, 0x1C0, 0x091, 0x190, 0x0D0, 0x085, 0x184, 0x0C4, 0x0A8,
	0x0A2, 0x08A, 0x02A,
	0x094, // '*'
}

// Code39Value returns the mod-43 value of a basic character, -1 if none.
func Code39Value(ch byte) int {
	for i := 0; i < 43; i++ {
		if C39Alphabet[i] == ch {
			return i
		}
	}
	return -1
}

// DecodeCode39 returns the characters between the start and stop '*' (a check character,
// if any, is still included). Narrow = 1 module, wide = 2, inter-character gap = 1 narrow space.
func DecodeCode39(row []bool) (string, error) {
	r, err := runs(row)
	if err != nil {
		return "", fmt.Errorf("code39: %v", err)
	}
	if (len(r)+1)%10 != 0 {
		return "", fmt.Errorf("code39: %d elements is not 10k-1", len(r))
	}
	var out []byte
	nch := (len(r) + 1) / 10
	for c := 0; c < nch; c++ {
		w := 0
		for e := 0; e < 9; e++ {
			switch r[c*10+e] {
			case 1:
				w <<= 1
			case 2:
				w = w<<1 | 1
			default:
				return "", fmt.Errorf("code39: element width %d in character %d", r[c*10+e], c)
			}
		}
		if c < nch-1 && r[c*10+9] != 1 {
			return "", fmt.Errorf("code39: inter-character gap of %d modules after character %d", r[c*10+9], c)
		}
		idx := -1
		for i, p := range c39Wide {
			if p == w {
				idx = i
			}
		}
		if idx < 0 {
			return "", fmt.Errorf("code39: unknown pattern %09b at character %d", w, c)
		}
		if idx == 43 {
			out = append(out, '*')
		} else {
			out = append(out, C39Alphabet[idx])
		}
	}
	if len(out) < 2 || out[0] != '*' || out[len(out)-1] != '*' {
		return "", fmt.Errorf("code39: missing start/stop character in %q", out)
	}
	for _, ch := range out[1 : len(out)-1] {
		if ch == '*' {
			return "", fmt.Errorf("code39: '*' inside the symbol %q", out)
		}
	}
	return string(out[1 : len(out)-1]), nil
}

// shiftDecode resolves one full-ASCII pair (shift kind '$','%','/','+' and a letter).
func shiftDecode(kind byte, l byte) (byte, bool) {
	if l < 'A' || l > 'Z' {
		return 0, false
	}
	switch kind {
	case '$':
		return l - 'A' + 1, true
	case '+':
		return l - 'A' + 'a', true
	case '/':
		if l <= 'O' {
			return l - 'A' + '!', true
		}
		if l == 'Z' {
			return ':', true
		}
	case '%':
		switch {
		case l <= 'E':
			return l - 'A' + 27, true
		case l <= 'J':
			return l - 'F' + ';', true
		case l <= 'O':
			return l - 'K' + '[', true
		case l <= 'T':
			return l - 'P' + '{', true
		case l == 'U':
			return 0, true
		case l == 'V':
			return '@', true
		case l == 'W':
			return '`', true
		default:
			return 127, true
		}
	}
	return 0, false
}

// Code39FullASCII resolves the shift pairs of a full-ASCII Code 39 character string.
func Code39FullASCII(s string) ([]byte, error) {
	var out []byte
	for i := 0; i < len(s); i++ {
		ch := s[i]
		switch ch {
		case '$', '%', '/', '+':
			if i+1 >= len(s) {
				return nil, fmt.Errorf("full ascii: dangling shift %q at the end", ch)
			}
			b, ok := shiftDecode(ch, s[i+1])
			if !ok {
				return nil, fmt.Errorf("full ascii: invalid pair %q", s[i:i+2])
			}
			out = append(out, b)
			i++
		default:
			out = append(out, ch)
		}
	}
	return out, nil
}

// ---------------------------------------------------------------------------
// Code 93

// values 0..46; 43..46 are the shift characters ($) (%) (/) (+); 47 is start/stop.
var c93Pat = [48]int{
	0x114, 0x148, 0x144, 0x142, 0x128, 0x124, 0x122, 0x150, 0x112, 0x10A,
	0x1A8, 0x1A4, 0x1A2, 0x194, 0x192, 0x18A, 0x168, 0x164, 0x162, 0x134,
	0x11A, 0x158, 0x14C, 0x146, 0x12C, 0x116, 0x1B4, 0x1B2, 0x1AC, 0x1A6,
	0x196, 0x19A, 0x16C, 0x166, 0x136, 0x13A,
	0x12E, 0x1D4, 0x1D2, 0x1CA, 0x16E, 0x176, 0x1AE,
	0x126, 0x1DA, 0x1D6, 0x132, 0x15E,
}

// DecodeCode93 returns the character values between start and stop (check characters, if
// any, still included).
func DecodeCode93(row []bool) ([]int, error) {
	n := len(row)
	if n < 19 || (n-1)%9 != 0 {
		return nil, fmt.Errorf("code93: %d modules is not 9k+1", n)
	}
	if !row[n-1] {
		return nil, errors.New("code93: termination bar missing")
	}
	k := (n - 1) / 9
	vals := make([]int, 0, k)
	for c := 0; c < k; c++ {
		b, _ := bits(row, 9*c, 9)
		idx := -1
		for i, p := range c93Pat {
			if p == b {
				idx = i
			}
		}
		if idx < 0 {
			return nil, fmt.Errorf("code93: unknown pattern %09b at character %d", b, c)
		}
		vals = append(vals, idx)
	}
	if vals[0] != 47 || vals[k-1] != 47 {
		return nil, errors.New("code93: missing start/stop character")
	}
	for _, v := range vals[1 : k-1] {
		if v == 47 {
			return nil, errors.New("code93: start/stop character inside the symbol")
		}
	}
	return vals[1 : k-1], nil
}

// Code93Check computes a check character value over vals with the weights 1..maxW from the right.
func Code93Check(vals []int, maxW int) int {
	sum, w := 0, 1
	for i := len(vals) - 1; i >= 0; i-- {
		sum += vals[i] * w
		w++
		if w > maxW {
			w = 1
		}
	}
	return sum % 47
}

// Code93Text converts values to text; the four shift characters are resolved when full
// is true and returned as the runes U+00F1..U+00F4 otherwise.
func Code93Text(vals []int, full bool) ([]rune, error) {
	var out []rune
	for i := 0; i < len(vals); i++ {
		v := vals[i]
		if v < 43 {
			out = append(out, rune(C39Alphabet[v]))
			continue
		}
		if !full {
			out = append(out, rune(0xF1+v-43))
			continue
		}
		if i+1 >= len(vals) || vals[i+1] >= 43 {
			return nil, errors.New("code93 full ascii: shift character without a letter")
		}
		b, ok := shiftDecode("$%/+"[v-43], C39Alphabet[vals[i+1]])
		if !ok {
			return nil, fmt.Errorf("code93 full ascii: invalid pair (%c)%c", "$%/+"[v-43], C39Alphabet[vals[i+1]])
		}
		out = append(out, rune(b))
		i++
	}
	return out, nil
}

// ---------------------------------------------------------------------------
// Codabar

const cbAlphabet = "0123456789-$:/.+ABCD"

var cbPat = [20]int{0x003, 0x006, 0x009, 0x060, 0x012, 0x042, 0x021, 0x024, 0x030, 0x048, 0x00c, 0x018, 0x045, 0x051, 0x054, 0x015, 0x01A, 0x029, 0x00B, 0x00E}

// DecodeCodabar returns all characters including start and stop letters.
func DecodeCodabar(row []bool) (string, error) {
	r, err := runs(row)
	if err != nil {
		return "", fmt.Errorf("codabar: %v", err)
	}
	if (len(r)+1)%8 != 0 {
		return "", fmt.Errorf("codabar: %d elements is not 8k-1", len(r))
	}
	n := (len(r) + 1) / 8
	out := make([]byte, 0, n)
	for c := 0; c < n; c++ {
		w := 0
		for e := 0; e < 7; e++ {
			switch r[c*8+e] {
			case 1:
				w <<= 1
			case 2:
				w = w<<1 | 1
			default:
				return "", fmt.Errorf("codabar: element width %d in character %d", r[c*8+e], c)
			}
		}
		if c < n-1 && r[c*8+7] != 1 {
			return "", fmt.Errorf("codabar: inter-character gap of %d modules", r[c*8+7])
		}
		idx := -1
		for i, p := range cbPat {
			if p == w {
				idx = i
			}
		}
		if idx < 0 {
			return "", fmt.Errorf("codabar: unknown pattern %07b at character %d", w, c)
		}
		out = append(out, cbAlphabet[idx])
	}
	isSS := func(b byte) bool { return b >= 'A' && b <= 'D' }
	if n < 2 || !isSS(out[0]) || !isSS(out[n-1]) {
		return "", fmt.Errorf("codabar: %q lacks start/stop letters", out)
	}
	for _, b := range out[1 : n-1] {
		if isSS(b) {
			return "", fmt.Errorf("codabar: start/stop letter inside %q", out)
		}
	}
	return string(out), nil
}

// ---------------------------------------------------------------------------
// 2 of 5

var tofPat = [10]int{0b00110, 0b10001, 0b01001, 0b11000, 0b00101, 0b10100, 0b01100, 0b00011, 0b10010, 0b01010}

func tofDigit(w int) int {
	for d, p := range tofPat {
		if p == w {
			return d
		}
	}
	return -1
}

// Decode2of5 decodes a standard (industrial) or interleaved 2 of 5 row; wide = 3 modules.
func Decode2of5(row []bool, interleaved bool) (string, error) {
	r, err := runs(row)
	if err != nil {
		return "", fmt.Errorf("2of5: %v", err)
	}
	elem := func(w int) (int, error) {
		switch w {
		case 1:
			return 0, nil
		case 3:
			return 1, nil
		}
		return 0, fmt.Errorf("2of5: element of %d modules", w)
	}
	var out []byte
	if interleaved {
		// start: n n n n ; stop: W n n
		if len(r) < 7 || (len(r)-7)%10 != 0 {
			return "", fmt.Errorf("2of5 interleaved: %d elements", len(r))
		}
		for i := 0; i < 4; i++ {
			if r[i] != 1 {
				return "", errors.New("2of5 interleaved: start pattern")
			}
		}
		e := len(r) - 3
		if r[e] != 3 || r[e+1] != 1 || r[e+2] != 1 {
			return "", errors.New("2of5 interleaved: stop pattern")
		}
		for p := 4; p < e; p += 10 {
			a, b := 0, 0
			for i := 0; i < 5; i++ {
				x, err := elem(r[p+2*i])
				if err != nil {
					return "", err
				}
				y, err := elem(r[p+2*i+1])
				if err != nil {
					return "", err
				}
				a, b = a<<1|x, b<<1|y
			}
			da, db := tofDigit(a), tofDigit(b)
			if da < 0 || db < 0 {
				return "", fmt.Errorf("2of5 interleaved: invalid pair patterns %05b/%05b", a, b)
			}
			out = append(out, byte('0'+da), byte('0'+db))
		}
		return string(out), nil
	}
	// standard: start 11011010 = bars 2,2,1 with narrow spaces; stop 1101011 = bars 2,1,2.
	// (start/stop bars of the industrial code are 2 modules wide in this rendering.)
	n := len(row)
	if n < 15 {
		return "", errors.New("2of5: too short")
	}
	if v, _ := bits(row, 0, 8); v != 0b11011010 {
		return "", errors.New("2of5: start pattern")
	}
	if v, _ := bits(row, n-7, 7); v != 0b1101011 {
		return "", errors.New("2of5: stop pattern")
	}
	body := row[8 : n-7]
	// each digit: 5 bars (1 or 3 modules) each followed by one narrow space
	p := 0
	for p < len(body) {
		w := 0
		for i := 0; i < 5; i++ {
			k := 0
			for p < len(body) && body[p] {
				k++
				p++
			}
			x, err := elem(k)
			if err != nil {
				return "", err
			}
			w = w<<1 | x
			if p >= len(body) || body[p] {
				return "", errors.New("2of5: missing space after bar")
			}
			p++
			if p < len(body) && !body[p] {
				return "", errors.New("2of5: space wider than one module")
			}
		}
		d := tofDigit(w)
		if d < 0 {
			return "", fmt.Errorf("2of5: invalid digit pattern %05b", w)
		}
		out = append(out, byte('0'+d))
	}
	return string(out), nil
}

// ---------------------------------------------------------------------------

func popcount(v int) int {
	n := 0
	for ; v != 0; v &= v - 1 {
		n++
	}
	return n
}

func init() {
	// Code 128: 11 modules (stop 13), 3 bars + 3 spaces, bar modules even, all distinct.
	for v, w := range c128Widths {
		b, n := widthsToBits(w)
		if v == 106 {
			if n != 13 {
				panic("code128 stop width")
			}
			c128Stop = b
			continue
		}
		bars := int(w[0]-'0') + int(w[2]-'0') + int(w[4]-'0')
		if n != 11 || len(w) != 6 || bars%2 != 0 {
			panic(fmt.Sprintf("code128 table row %d malformed", v))
		}
		if _, dup := c128Inv[b]; dup {
			panic(fmt.Sprintf("code128 table row %d duplicate", v))
		}
		c128Inv[b] = v
	}
	// EAN: R = complement of L, G = mirror of R; L odd parity, G even parity.
	for d, l := range eanL {
		eanR[d] = ^l & 0x7F
		eanG[d] = rev7(eanR[d])
		if popcount(l)%2 != 1 || popcount(eanG[d])%2 != 0 {
			panic("ean table parity")
		}
	}
	seen := map[int]bool{}
	for d := 0; d < 10; d++ {
		for _, p := range []int{eanL[d], eanG[d]} {
			if seen[p] {
				panic("ean table duplicate")
			}
			seen[p] = true
		}
	}
	// Code 39: three wide elements of nine, distinct.
	s39 := map[int]bool{}
	for _, p := range c39Wide {
		if popcount(p) != 3 || s39[p] {
			panic("code39 table")
		}
		s39[p] = true
	}
	// Code 93: nine modules, starts with bar, ends with space, 3 bars/3 spaces, distinct.
	s93 := map[int]bool{}
	for _, p := range c93Pat {
		if p>>8 != 1 || p&1 != 0 || s93[p] {
			panic("code93 table")
		}
		tr := 0
		for i := 8; i > 0; i-- {
			if (p>>uint(i))&1 != (p>>uint(i-1))&1 {
				tr++
			}
		}
		if tr != 5 {
			panic("code93 table transitions")
		}
		s93[p] = true
	}
	// Codabar: 2 or 3 wide elements of seven, distinct.
	scb := map[int]bool{}
	for _, p := range cbPat {
		if c := popcount(p); (c != 2 && c != 3) || scb[p] {
			panic("codabar table")
		}
		scb[p] = true
	}
	for _, p := range tofPat {
		if popcount(p) != 2 {
			panic("2of5 table")
		}
	}
}
