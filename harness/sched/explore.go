package sched

import (
	"fmt"
	"strings"
	"time"
)

// Harness describes one closed system: Setup prepares a fresh (cold) instance and returns
// the top-level calls, and a verdict function evaluated after every complete execution
// (it returns a violation message or "", and a digest of the end state).
type Harness struct {
	Name   string
	Policy Policy
	Setup  func() (bodies []func(), verdict func(x *Exec) (violation string, endState string))
	// OnSchedule, if set, is called before every execution (progress hook for watchdogs).
	OnSchedule func()
	// StateKeys enables pruning on a global state key (per-thread operation/value histories
	// plus channel and lock states): sound when the threads of the harness interact only
	// through hooked operations, as the goroutine pipelines of a single call do.
	StateKeys bool
	// ProbesOnly limits the exploration to the default schedule and the three probe schedules
	// (for harnesses that are too long to branch on, e.g. a version-40 QR symbol).
	ProbesOnly bool
}

// Violation is a failing schedule.
type Violation struct {
	Harness  string
	Schedule []int
	Msg      string
	Preempt  int
}

// Stats is what an exploration covered.
type Stats struct {
	Schedules  int64
	Points     int64
	MaxPoints  int
	EndStates  map[string]int64
	Complete   bool // the whole bounded space (of this shard) was explored
	Bound      int
	Violation  *Violation
	HardError  string
	Pruned     int64            // executions whose suffix was not branched because its state was already expanded
	States     int64            // distinct global states seen (with StateKeys)
	Cut        bool             // some alternative was not taken because of the preemption bound
	SharedSeqs map[string]int64 // distinct sequences of shared-object operations per group
}

type frame struct {
	choices []int
	points  []Point
	base    int // alternatives are generated for positions >= base
	i, alt  int
	pre     []int // preemptions before position i
}

func runOnce(h Harness, prefix []int, keepTrace bool) (*Exec, string, string) {
	if h.OnSchedule != nil {
		h.OnSchedule()
	}
	bodies, verdict := h.Setup()
	x := RunKeyed(bodies, prefix, h.Policy, keepTrace, h.StateKeys)
	if x.Violation != "" {
		return x, x.Violation, ""
	}
	v, end := verdict(x)
	return x, v, end
}

// Explore enumerates every schedule of h with at most bound preemptions (iterative context
// bounding: a switch away from a still-enabled thread/group costs one). Level-1 subtrees are
// distributed over shards. The exploration stops at the first violation.
func Explore(h Harness, bound int, shard, nshards int, deadline time.Time) Stats {
	if bound < 0 {
		bound = 1 << 30 // unbounded: every schedule (up to state-key pruning)
	}
	st := Stats{EndStates: map[string]int64{}, SharedSeqs: map[string]int64{}, Bound: bound, Complete: true}
	record := func(x *Exec, v, end string, prefix []int) bool {
		st.Schedules++
		st.Points += int64(len(x.Points))
		if len(x.Points) > st.MaxPoints {
			st.MaxPoints = len(x.Points)
		}
		if strings.HasPrefix(v, "HARD-ERROR") {
			st.HardError = v
			return false
		}
		if v != "" {
			ch := make([]int, len(x.Points))
			pre := 0
			for i, p := range x.Points {
				ch[i] = p.Chosen
				if p.Chosen != 0 && p.CurEnabled {
					pre++
				}
			}
			// keep only the meaningful part of the schedule (trailing zeros are the default)
			for len(ch) > 0 && ch[len(ch)-1] == 0 {
				ch = ch[:len(ch)-1]
			}
			st.Violation = &Violation{Harness: h.Name, Schedule: ch, Msg: v, Preempt: pre}
			return false
		}
		st.EndStates[end]++
		if len(st.SharedSeqs) < 64 {
			st.SharedSeqs[seqDigest(x.SharedSeq)]++
		}
		return true
	}
	visited := map[uint64]int{} // state key -> largest remaining preemption budget it was expanded with
	mk := func(x *Exec, base int) *frame {
		f := &frame{base: base, i: base, alt: 1}
		f.choices = make([]int, len(x.Points))
		f.points = x.Points
		f.pre = make([]int, len(x.Points)+1)
		for i, p := range x.Points {
			f.choices[i] = p.Chosen
			f.pre[i+1] = f.pre[i]
			if p.Chosen != 0 && p.CurEnabled {
				f.pre[i+1]++
			}
		}
		if h.StateKeys {
			// branch only up to the first state that was already expanded with at least this budget
			for i := base; i < len(x.Points); i++ {
				rem := bound - f.pre[i]
				if v, ok := visited[x.Points[i].Key]; ok && v >= rem {
					f.points = f.points[:i]
					st.Pruned++
					break
				}
				visited[x.Points[i].Key] = rem
			}
			st.States = int64(len(visited))
		}
		return f
	}
	// probes: the canonical order reversed / rotated at every free choice point (cheap, and they
	// vary all orderings at once: arrival-order dependence shows here first)
	if shard == 0 && bound == 0 {
		for k := 1; k <= 3; k++ {
			if h.OnSchedule != nil {
				h.OnSchedule()
			}
			bodies, verdict := h.Setup()
			xp := RunProbe(bodies, nil, h.Policy, false, false, k)
			vp, endp := xp.Violation, ""
			if vp == "" {
				vp, endp = verdict(xp)
			}
			if !record(xp, vp, endp, nil) {
				if st.Violation != nil { // keep the full choice list: it is not "prefix then zeros"
					ch := make([]int, len(xp.Points))
					for i, p := range xp.Points {
						ch[i] = p.Chosen
					}
					st.Violation.Schedule = ch
				}
				return st
			}
		}
	}
	x, v, end := runOnce(h, nil, false)
	if shard == 0 {
		if !record(x, v, end, nil) {
			return st
		}
	} else if strings.HasPrefix(v, "HARD-ERROR") {
		st.HardError = v
		return st
	}
	if h.ProbesOnly {
		st.Cut = true
		return st
	}
	stack := []*frame{mk(x, 0)}
	var level1 int64
	for len(stack) > 0 {
		f := stack[len(stack)-1]
		// next alternative of this frame
		found := false
		var prefix []int
		for f.i < len(f.points) {
			p := f.points[f.i]
			cost := f.pre[f.i]
			if p.CurEnabled {
				cost++
			}
			if cost > bound && p.NChoices > 1 {
				st.Cut = true
			}
			if cost > bound || f.alt >= p.NChoices {
				f.i++
				f.alt = 1
				continue
			}
			prefix = append(append([]int(nil), f.choices[:f.i]...), f.alt)
			f.alt++
			found = true
			break
		}
		if !found {
			stack = stack[:len(stack)-1]
			continue
		}
		if len(stack) == 1 {
			level1++
			if int((level1-1)%int64(nshards)) != shard {
				continue
			}
		}
		if !deadline.IsZero() && time.Now().After(deadline) {
			st.Complete = false
			return st
		}
		x, v, end := runOnce(h, prefix, false)
		if !record(x, v, end, prefix) {
			return st
		}
		stack = append(stack, mk(x, len(prefix)))
	}
	return st
}

func seqDigest(seq []string) string {
	return fmt.Sprintf("%d ops #%x", len(seq), fnv(strings.Join(seq, ",")))
}

func fnv(s string) uint64 {
	var h uint64 = 1469598103934665603
	for i := 0; i < len(s); i++ {
		h ^= uint64(s[i])
		h *= 1099511628211
	}
	return h
}

// Replay runs one schedule twice with full traces and reports the verdict; the two runs
// must be identical (otherwise the harness is not deterministic: a hard error).
func Replay(h Harness, schedule []int) (violation string, trace []string, err error) {
	x1, v1, e1 := runOnce(h, schedule, true)
	x2, v2, e2 := runOnce(h, schedule, true)
	if strings.HasPrefix(v1, "HARD-ERROR") {
		return "", nil, fmt.Errorf("%s", v1)
	}
	if firstLine(v1) != firstLine(v2) || e1 != e2 || strings.Join(x1.Trace, ",") != strings.Join(x2.Trace, ",") {
		return "", nil, fmt.Errorf("replaying the same schedule twice gave different executions (%q/%q vs %q/%q, %d vs %d transitions)", firstLine(v1), e1, firstLine(v2), e2, len(x1.Trace), len(x2.Trace))
	}
	return v1, x1.Trace, nil
}

func firstLine(s string) string {
	if i := strings.IndexByte(s, '\n'); i >= 0 {
		return s[:i]
	}
	return s
}
