// Package sched is engine S: a controlled cooperative scheduler for the instrumented
// /repo code. Goroutines started through Go are real goroutines but exactly one runs at a
// time; at every hooked operation (go, channel send/receive/close, mutex, wait group, Step)
// the running thread parks with a pending operation and the explorer decides who goes next.
// Outside an exploration (Active() == false) every shim falls through to the real operation.
package sched

import (
	"fmt"
	"reflect"
	"runtime"
	"runtime/debug"
	"strings"
	"sync/atomic"
)

type opKind uint8

const (
	opStart opKind = iota
	opResume
	opStep
	opGo
	opSend
	opRecv
	opClose
	opLock
	opUnlock
	opRLock
	opRUnlock
	opWGAdd
	opWGWait
	opCondWait
	opCondSignal
)

var kindNames = [...]string{"start", "resume", "step", "go", "send", "recv", "close", "lock", "unlock", "rlock", "runlock", "wgadd", "wgwait", "condwait", "condsignal"}

type op struct {
	kind   opKind
	obj    int // object id (channel, mutex, waitgroup), 0 = none
	label  string
	shared bool        // operation on an object reachable from several top-level calls
	val    any         // send: pointer to the value
	fn     func()      // go: body of the new thread
	delta  int         // wgadd
	ch     *chanState  // send/recv/close
	mu     *MutexState // lock/unlock
	wg     *WGState
	cond   *CondState
	ticket int
	all    bool // condsignal: broadcast
}

type thread struct {
	id    int
	group int
	top   bool // a top-level call of the harness
	wake  chan struct{}
	pend  op
	done  bool
	kill  bool
	// results of a completed receive
	recvVal any
	recvOK  bool
	// a blocked send that was woken because the channel was closed
	sendAborted bool
	parkSeq     int64 // when this thread parked with its pending operation (orders blocked senders)
	// hash of everything this thread did and received so far (its local state, given that
	// threads interact only through hooked operations)
	hist uint64
}

type chanState struct {
	id     int
	closed bool
	group  int   // first group that touched it (-1 = none)
	cap    int   // 0 = rendezvous
	buf    []any // buffered values (pointers to them), oldest first
}

// MutexState is the scheduler-side state of a vsync mutex.
type MutexState struct {
	owner0  *Sched // execution that numbered this mutex
	id      int
	owner   int // thread id, -1 = free
	readers int
}

// CondState is the scheduler-side state of a vsync condition variable: waiters queue up in
// arrival order; Signal wakes the oldest one that is still waiting, Broadcast all of them.
type CondState struct {
	owner0  *Sched
	id      int
	next    int
	waiting []int
	woken   map[int]bool
}

// WGState is the scheduler-side state of a vsync wait group.
type WGState struct {
	owner0 *Sched
	id     int
	n      int
}

// Policy selects which enabled threads are offered as alternatives.
type Policy int

const (
	ThreadLevel Policy = iota // every enabled thread at every point
	GroupLevel                // other call-groups only at shared operations (see DESIGN 3.2)
)

// Point is one scheduling decision of an execution.
type Point struct {
	NChoices   int
	Chosen     int
	CurEnabled bool   // choice 0 continues the running thread / group
	Key        uint64 // global state key before the choice (only when Sched.keys)
}

// Exec is the record of one complete execution.
type Exec struct {
	Points    []Point
	Trace     []string // executed transitions (only kept when Sched.KeepTrace)
	SharedSeq []string // shared-object operations in execution order, per group
	Violation string
	Steps     int
}

// Sched is one execution under control.
type Sched struct {
	threads    []*thread
	cur        *thread
	parkCh     chan *thread
	prefix     []int
	policy     Policy
	horizon    int
	KeepTrace  bool
	probe      int // 0 = default; k > 0 = at free choice points take alternative (n-k) mod n
	seq        int64
	keys       bool
	exec       *Exec
	killed     bool
	nextObj    int
	chanStates []*chanState
	mutexes    []*MutexState
	wgs        []*WGState
	conds      []*CondState
	objs       map[uintptr]any // channel pointer -> *chanState; keeps channels alive
	keep       []any
	panicMsg   string
	hardErr    string
}

var active atomic.Pointer[Sched]

var epoch atomic.Int64

// Epoch identifies the current execution (0 outside an exploration). State that must not
// survive from one execution to the next (vsync.Pool items, vsync.Map contents) is dropped
// when the epoch changes: every execution starts like a fresh process.
func Epoch() int64 {
	if active.Load() == nil {
		return 0
	}
	return epoch.Load()
}

var resets []func()

// RegisterReset registers a function that puts package-level state of the instrumented code
// back to its initial value; all of them run before every execution.
func RegisterReset(f func()) { resets = append(resets, f) }

// Active reports whether an exploration is running.
func Active() bool { return active.Load() != nil }

type killSignal struct{}

func (s *Sched) newThread(group int, top bool, fn func()) *thread {
	t := &thread{id: len(s.threads), group: group, top: top, wake: make(chan struct{})}
	t.pend = op{kind: opStart}
	s.threads = append(s.threads, t)
	go func() {
		<-t.wake
		defer func() {
			if r := recover(); r != nil {
				if _, isKill := r.(killSignal); !isKill && !s.killed {
					s.panicMsg = fmt.Sprintf("panic in thread %d (group %d): %v\n%s", t.id, t.group, r, trimStack(debug.Stack()))
				}
			}
			t.done = true
			s.parkCh <- t
		}()
		if t.kill {
			return
		}
		fn()
	}()
	return t
}

func trimStack(b []byte) string {
	s := string(b)
	if i := strings.Index(s, "panic("); i >= 0 {
		s = s[i:]
	}
	if len(s) > 1800 {
		s = s[:1800]
	}
	return s
}

// yield parks the running thread with its pending operation and returns once the
// scheduler has executed that operation and resumed the thread.
func (s *Sched) yield(o op) *thread {
	t := s.cur
	t.pend = o
	s.seq++
	t.parkSeq = s.seq
	s.parkCh <- t
	<-t.wake
	if t.kill {
		panic(killSignal{})
	}
	return t
}

type transition struct {
	t       *thread
	partner *thread // sender of a rendezvous
}

func (s *Sched) opEnabled(t *thread) (bool, *thread) {
	o := &t.pend
	switch o.kind {
	case opSend:
		// unbuffered: completes through the receiver's transition; wakes (to panic) if the channel gets closed.
		// buffered: enabled while there is room
		return o.ch.closed || len(o.ch.buf) < o.ch.cap, nil
	case opRecv:
		if o.ch.closed || len(o.ch.buf) > 0 {
			return true, nil
		}
		if o.ch.cap > 0 {
			return false, nil // senders have room: they complete on their own transitions
		}
		// blocked senders are served in the order in which they blocked (as the Go runtime does)
		var first *thread
		for _, u := range s.threads {
			if !u.done && u != t && u.pend.kind == opSend && u.pend.ch == o.ch && (first == nil || u.parkSeq < first.parkSeq) {
				first = u
			}
		}
		return first != nil, first
	case opLock:
		return o.mu.owner < 0 && o.mu.readers == 0, nil
	case opRLock:
		return o.mu.owner < 0, nil
	case opWGWait:
		return o.wg.n == 0, nil
	case opCondWait:
		return o.cond.woken[o.ticket], nil
	}
	return true, nil
}

func (s *Sched) enabled() []transition {
	var all []transition
	for _, t := range s.threads {
		if t.done {
			continue
		}
		if ok, p := s.opEnabled(t); ok {
			all = append(all, transition{t, p})
		}
	}
	return all
}

// choices returns the alternatives in canonical order and whether choice 0 continues the
// running thread (thread-level) or the running group (group-level).
func (s *Sched) choices(all []transition) ([]transition, bool) {
	if len(all) == 0 {
		return nil, false
	}
	if s.policy == ThreadLevel {
		curEn := false
		if s.cur != nil {
			for i, tr := range all {
				if tr.t == s.cur {
					all[0], all[i] = all[i], all[0]
					// keep ascending ids after the first
					for j := i; j > 1 && all[j].t.id < all[j-1].t.id; j-- {
						all[j], all[j-1] = all[j-1], all[j]
					}
					curEn = true
					break
				}
			}
		}
		return all, curEn
	}
	canonical := func(g int) *transition {
		var best *transition
		for i := range all {
			if all[i].t.group != g {
				continue
			}
			if all[i].t == s.cur {
				return &all[i]
			}
			if best == nil {
				best = &all[i]
			}
		}
		return best
	}
	curGroup := -1
	if s.cur != nil {
		curGroup = s.cur.group
	}
	var out []transition
	cg := canonical(curGroup)
	if cg != nil {
		out = append(out, *cg)
	}
	if cg == nil || cg.t.pend.shared {
		seen := map[int]bool{curGroup: true}
		for _, tr := range all {
			if seen[tr.t.group] {
				continue
			}
			seen[tr.t.group] = true
			out = append(out, *canonical(tr.t.group))
		}
	}
	return out, cg != nil
}

func (s *Sched) touch(t *thread, c *chanState) {
	if c.group < 0 {
		c.group = t.group
	} else if c.group != t.group && s.policy == GroupLevel && s.hardErr == "" {
		s.hardErr = fmt.Sprintf("premise of the group-level reduction violated: channel %d is used by call-groups %d and %d", c.id, c.group, t.group)
	}
}

func mix(h uint64, v uint64) uint64 {
	h ^= v + 0x9e3779b97f4a7c15 + (h << 6) + (h >> 2)
	return h * 1099511628211
}

func hashStr(s string) uint64 {
	var h uint64 = 1469598103934665603
	for i := 0; i < len(s); i++ {
		h ^= uint64(s[i])
		h *= 1099511628211
	}
	return h
}

// stateKey digests the global state: every thread's history and status, every channel
// and lock, and which thread ran last (it decides what a preemption is).
func (s *Sched) stateKey() uint64 {
	var h uint64 = 7
	for _, t := range s.threads {
		h = mix(h, t.hist)
		if t.done {
			h = mix(h, 1)
		} else {
			h = mix(h, uint64(t.pend.kind)+2)
			h = mix(h, uint64(t.pend.obj))
			if t.pend.kind == opSend {
				h = mix(h, hashStr(fmt.Sprint(reflect.ValueOf(t.pend.val).Elem().Interface())))
			}
			if t.pend.label != "" {
				h = mix(h, hashStr(t.pend.label))
			}
		}
	}
	if s.cur != nil {
		h = mix(h, uint64(s.cur.id)+100)
	}
	for _, st := range s.chanStates {
		if st.closed {
			h = mix(h, uint64(st.id)*31+1)
		}
		for _, v := range st.buf {
			h = mix(h, uint64(st.id)*37+hashStr(fmt.Sprint(reflect.ValueOf(v).Elem().Interface())))
		}
	}
	for _, m := range s.mutexes {
		h = mix(h, uint64(m.id)*131+uint64(m.owner+2)*7+uint64(m.readers))
	}
	for _, w := range s.wgs {
		h = mix(h, uint64(w.id)*17+uint64(w.n+1000))
	}
	for _, c := range s.conds {
		h = mix(h, uint64(c.id)*19+uint64(len(c.waiting))*3+uint64(len(c.woken)))
	}
	return h
}

func (s *Sched) apply(tr transition) {
	t := tr.t
	o := &t.pend
	if s.keys {
		t.hist = mix(mix(t.hist, uint64(o.kind)+1), uint64(o.obj))
		if o.label != "" {
			t.hist = mix(t.hist, hashStr(o.label))
		}
		if o.kind == opRecv {
			if len(o.ch.buf) > 0 {
				t.hist = mix(t.hist, hashStr(fmt.Sprint(reflect.ValueOf(o.ch.buf[0]).Elem().Interface())))
			} else if tr.partner != nil {
				t.hist = mix(t.hist, hashStr(fmt.Sprint(reflect.ValueOf(tr.partner.pend.val).Elem().Interface())))
				tr.partner.hist = mix(tr.partner.hist, 0xabc)
			} else {
				t.hist = mix(t.hist, 0xc105ed)
			}
		}
	}
	switch o.kind {
	case opSend:
		if o.ch.closed {
			t.sendAborted = true
		} else {
			o.ch.buf = append(o.ch.buf, o.val)
		}
	case opRecv:
		s.touch(t, o.ch)
		if len(o.ch.buf) > 0 {
			t.recvVal, t.recvOK = o.ch.buf[0], true
			o.ch.buf = append([]any(nil), o.ch.buf[1:]...)
			// a sender that was blocked on the full buffer gets the freed slot at once, oldest first (as the Go runtime does)
			var first *thread
			for _, u := range s.threads {
				if !u.done && u != t && u.pend.kind == opSend && u.pend.ch == o.ch && (first == nil || u.parkSeq < first.parkSeq) {
					first = u
				}
			}
			if first != nil && len(o.ch.buf) == o.ch.cap-1 && !o.ch.closed {
				o.ch.buf = append(o.ch.buf, first.pend.val)
				if s.keys {
					first.hist = mix(first.hist, 0xabd)
				}
				first.pend = op{kind: opResume}
			}
		} else if tr.partner != nil {
			t.recvVal, t.recvOK = tr.partner.pend.val, true
			tr.partner.pend = op{kind: opResume}
		} else {
			t.recvVal, t.recvOK = nil, false
		}
	case opClose:
		s.touch(t, o.ch)
		if o.ch.closed {
			t.recvOK = false // signals "close of closed channel" to the shim
		} else {
			o.ch.closed = true
			t.recvOK = true
		}
	case opLock:
		o.mu.owner = t.id
	case opUnlock:
		o.mu.owner = -1
	case opRLock:
		o.mu.readers++
	case opRUnlock:
		o.mu.readers--
	case opCondWait:
		delete(o.cond.woken, o.ticket)
	case opCondSignal:
		c := o.cond
		for len(c.waiting) > 0 {
			c.woken[c.waiting[0]] = true
			c.waiting = c.waiting[1:]
			if !o.all {
				break
			}
		}
	case opWGAdd:
		o.wg.n += o.delta
	case opGo:
		s.newThread(t.group, false, o.fn)
	}
	if s.KeepTrace {
		s.exec.Trace = append(s.exec.Trace, fmt.Sprintf("t%d:%s:%d%s", t.id, kindNames[o.kind], o.obj, o.label))
	}
	if o.shared {
		s.exec.SharedSeq = append(s.exec.SharedSeq, fmt.Sprintf("g%d:%s:%d%s", t.group, kindNames[o.kind], o.obj, o.label))
	}
}

// Run executes the bodies (one top-level call-group each) under the choice prefix, taking
// choice 0 afterwards. It returns the record of the execution.
func Run(bodies []func(), prefix []int, policy Policy, keepTrace bool) *Exec {
	return RunKeyed(bodies, prefix, policy, keepTrace, false)
}

// RunKeyed is Run that additionally records the global state key at every point.
func RunKeyed(bodies []func(), prefix []int, policy Policy, keepTrace, keys bool) *Exec {
	return RunProbe(bodies, prefix, policy, keepTrace, keys, 0)
}

// RunProbe is RunKeyed with a different default after the prefix: with probe k > 0 every free
// choice point (the running thread is blocked or finished, so no preemption is spent) takes
// alternative (n-k) mod n instead of 0, i.e. the canonical order reversed / rotated.
func RunProbe(bodies []func(), prefix []int, policy Policy, keepTrace, keys bool, probe int) *Exec {
	s := &Sched{parkCh: make(chan *thread), prefix: prefix, policy: policy, horizon: 2000000, KeepTrace: keepTrace, keys: keys, probe: probe,
		exec: &Exec{}, objs: map[uintptr]any{}}
	epoch.Add(1)
	for _, f := range resets {
		f()
	}
	if !active.CompareAndSwap(nil, s) {
		panic("sched: nested exploration")
	}
	defer active.Store(nil)
	for g, b := range bodies {
		s.newThread(g, true, b)
	}
	x := s.exec
	for {
		if s.panicMsg != "" {
			x.Violation = s.panicMsg
			break
		}
		if s.hardErr != "" {
			break
		}
		all := s.enabled()
		if len(all) == 0 {
			var stuckTop, stuck []string
			for _, t := range s.threads {
				if !t.done {
					d := fmt.Sprintf("thread %d (group %d) blocked in %s on object %d", t.id, t.group, kindNames[t.pend.kind], t.pend.obj)
					stuck = append(stuck, d)
					if t.top {
						stuckTop = append(stuckTop, d)
					}
				}
			}
			if len(stuckTop) > 0 {
				x.Violation = "deadlock: no thread can run; " + strings.Join(stuck, "; ")
			} else if len(stuck) > 0 {
				x.Violation = "goroutine leak: all calls returned but " + strings.Join(stuck, "; ")
			}
			break
		}
		ch, curEn := s.choices(all)
		idx := 0
		if s.probe > 0 && !curEn && len(ch) > 1 {
			idx = ((len(ch)-s.probe)%len(ch) + len(ch)) % len(ch)
		}
		if len(x.Points) < len(s.prefix) {
			idx = s.prefix[len(x.Points)]
			if idx >= len(ch) {
				s.hardErr = fmt.Sprintf("replay divergence at point %d: choice %d of %d", len(x.Points), idx, len(ch))
				break
			}
		}
		pt := Point{NChoices: len(ch), Chosen: idx, CurEnabled: curEn}
		if s.keys {
			pt.Key = s.stateKey()
		}
		x.Points = append(x.Points, pt)
		tr := ch[idx]
		s.apply(tr)
		s.cur = tr.t
		x.Steps++
		if x.Steps > s.horizon {
			x.Violation = fmt.Sprintf("livelock: execution exceeded %d scheduling points", s.horizon)
			break
		}
		tr.t.wake <- struct{}{}
		<-s.parkCh
	}
	// tear down whatever is still parked
	s.killed = true
	for _, t := range s.threads {
		if !t.done {
			t.kill = true
			t.wake <- struct{}{}
			for !t.done {
				u := <-s.parkCh
				if u != t && !u.done {
					// a killed thread's deferred code reached another hooked operation: let it through
					u.wake <- struct{}{}
				}
			}
		}
	}
	if s.hardErr != "" {
		x.Violation = "HARD-ERROR: " + s.hardErr
	}
	return x
}

func cur() *Sched {
	s := active.Load()
	if s == nil || s.killed {
		return nil
	}
	return s
}

func (s *Sched) chanOf(ch any) *chanState {
	p := reflect.ValueOf(ch).Pointer()
	if c, ok := s.objs[p]; ok {
		return c.(*chanState)
	}
	s.nextObj++
	c := &chanState{id: s.nextObj, group: -1, cap: reflect.ValueOf(ch).Cap()}
	s.chanStates = append(s.chanStates, c)
	s.objs[p] = c
	s.keep = append(s.keep, ch)
	return c
}

// ---- shims called by the instrumented code -------------------------------------------

// Go starts fn as a new controlled thread (or a plain goroutine outside an exploration).
func Go(fn func()) {
	s := cur()
	if s == nil {
		go fn()
		return
	}
	s.yield(op{kind: opGo, fn: fn})
}

// Step is a pure scheduling point; in files that guard shared state it precedes every statement.
func Step(label string) {
	if s := cur(); s != nil {
		s.yield(op{kind: opStep, label: "@" + label, shared: true})
	}
}

// Send is ch <- v (rendezvous on an unbuffered channel, enqueue on a buffered one).
func Send[T any](ch chan<- T, v T) {
	s := cur()
	if s == nil {
		ch <- v
		return
	}
	c := s.chanOf(ch)
	if c.closed {
		panic("send on closed channel")
	}
	s.touch(s.cur, c)
	t := s.yield(op{kind: opSend, obj: c.id, ch: c, val: &v})
	if t.sendAborted {
		t.sendAborted = false
		panic("send on closed channel")
	}
}

// Recv2 is v, ok := <-ch.
func Recv2[T any](ch <-chan T) (T, bool) {
	s := cur()
	if s == nil {
		v, ok := <-ch
		return v, ok
	}
	c := s.chanOf(ch)
	t := s.yield(op{kind: opRecv, obj: c.id, ch: c})
	var zero T
	if !t.recvOK {
		return zero, false
	}
	return *(t.recvVal.(*T)), true
}

// Recv is <-ch.
func Recv[T any](ch <-chan T) T {
	v, _ := Recv2(ch)
	return v
}

// Len is len(ch): the number of buffered values.
func Len(ch any) int {
	s := cur()
	if s == nil {
		return reflect.ValueOf(ch).Len()
	}
	return len(s.chanOf(ch).buf)
}

// Close is close(ch).
func Close[T any](ch chan<- T) {
	s := cur()
	if s == nil {
		close(ch)
		return
	}
	c := s.chanOf(ch)
	t := s.yield(op{kind: opClose, obj: c.id, ch: c})
	if !t.recvOK {
		panic("close of closed channel")
	}
}

// ---- hooks for package vsync ------------------------------------------------------------

func NewMutexState() *MutexState { return &MutexState{owner: -1} }

func (s *Sched) muID(m *MutexState) int {
	if m.id == 0 || m.owner0 != s {
		s.nextObj++
		m.id = s.nextObj
		m.owner0 = s
		s.mutexes = append(s.mutexes, m)
	}
	return m.id
}

// MutexOp performs a mutex operation under the scheduler; it returns false when no
// exploration is active (the caller then uses the real mutex).
func MutexOp(m *MutexState, kind string) bool {
	s := cur()
	if s == nil {
		return false
	}
	var k opKind
	switch kind {
	case "lock":
		k = opLock
	case "unlock":
		k = opUnlock
		if m.owner < 0 {
			panic("sync: unlock of unlocked mutex")
		}
	case "rlock":
		k = opRLock
	case "runlock":
		k = opRUnlock
		if m.readers <= 0 {
			panic("sync: RUnlock of unlocked RWMutex")
		}
	}
	s.yield(op{kind: k, obj: s.muID(m), mu: m, shared: true})
	return true
}

func WGOp(w *WGState, delta int, wait bool) bool {
	s := cur()
	if s == nil {
		return false
	}
	if w.id == 0 || w.owner0 != s {
		s.nextObj++
		w.id = s.nextObj
		w.owner0 = s
		s.wgs = append(s.wgs, w)
	}
	if wait {
		s.yield(op{kind: opWGWait, obj: w.id, wg: w, shared: true})
	} else {
		s.yield(op{kind: opWGAdd, obj: w.id, wg: w, delta: delta, shared: true})
		if w.n < 0 {
			panic("sync: negative WaitGroup counter")
		}
	}
	return true
}

func (s *Sched) condOf(c *CondState) {
	if c.id == 0 || c.owner0 != s {
		s.nextObj++
		*c = CondState{owner0: s, id: s.nextObj, woken: map[int]bool{}}
		s.conds = append(s.conds, c)
	}
}

// CondEnqueue registers the running thread as a waiter (no scheduling point: it happens while the
// caller still holds the lock) and returns its ticket; ok=false outside an exploration.
func CondEnqueue(c *CondState) (ticket int, ok bool) {
	s := cur()
	if s == nil {
		return 0, false
	}
	s.condOf(c)
	c.next++
	c.waiting = append(c.waiting, c.next)
	return c.next, true
}

// CondWait parks the running thread until its ticket has been signalled.
func CondWait(c *CondState, ticket int) {
	if s := cur(); s != nil {
		s.yield(op{kind: opCondWait, obj: c.id, cond: c, ticket: ticket, shared: true})
	}
}

// CondSignal is Signal (all=false) or Broadcast (all=true); false outside an exploration.
func CondSignal(c *CondState, all bool) bool {
	s := cur()
	if s == nil {
		return false
	}
	s.condOf(c)
	s.yield(op{kind: opCondSignal, obj: c.id, cond: c, all: all, shared: true})
	return true
}

// Killed reports whether the current execution is being torn down (shims become no-ops).
func Killed() bool {
	s := active.Load()
	return s != nil && s.killed
}

var _ = runtime.Gosched
