package sched

import (
	"fmt"
	"sort"
	"strings"
	"testing"
	"time"
)

// exploreAll runs every schedule of the harness and returns the distinct end states.
func exploreAll(t *testing.T, name string, setup func() ([]func(), func(*Exec) (string, string))) (Stats, []string) {
	st := Explore(Harness{Name: name, Policy: ThreadLevel, Setup: setup}, -1, 0, 1, time.Now().Add(time.Minute))
	if st.HardError != "" {
		t.Fatalf("%s: %s", name, st.HardError)
	}
	var ends []string
	for e := range st.EndStates {
		ends = append(ends, e)
	}
	sort.Strings(ends)
	return st, ends
}

// two producers, buffered channel with room for both: both arrival orders and nothing else
func TestBufferedTwoProducers(t *testing.T) {
	st, ends := exploreAll(t, "buf2", func() ([]func(), func(*Exec) (string, string)) {
		var got []int
		return []func(){func() {
				ch := make(chan int, 2)
				for i := 1; i <= 2; i++ {
					i := i
					Go(func() { Send(ch, i) })
				}
				got = append(got, Recv(ch), Recv(ch))
			}}, func(*Exec) (string, string) {
				return "", fmt.Sprint(got)
			}
	})
	if st.Violation != nil || strings.Join(ends, " ") != "[1 2] [2 1]" {
		t.Fatalf("end states %v violation %+v", ends, st.Violation)
	}
}

// one slot, three values: the order is preserved in every schedule and nobody is left behind
func TestBufferedBlocksWhenFull(t *testing.T) {
	st, ends := exploreAll(t, "buf1", func() ([]func(), func(*Exec) (string, string)) {
		var got []int
		return []func(){func() {
				ch := make(chan int, 1)
				Go(func() {
					for i := 1; i <= 3; i++ {
						Send(ch, i)
					}
					Close(ch)
				})
				for {
					v, ok := Recv2(ch)
					if !ok {
						break
					}
					got = append(got, v, Len(ch))
				}
			}}, func(*Exec) (string, string) {
				return "", fmt.Sprint(got[0], got[2], got[4])
			}
	})
	if st.Violation != nil || len(ends) != 1 || ends[0] != "1 2 3" || st.Schedules < 2 {
		t.Fatalf("end states %v violation %+v schedules %d", ends, st.Violation, st.Schedules)
	}
}

// blocked senders on a full buffer get the freed slots in arrival order
func TestBufferedBlockedSendersFIFO(t *testing.T) {
	st, ends := exploreAll(t, "fifo", func() ([]func(), func(*Exec) (string, string)) {
		var got []int
		return []func(){func() {
				ch := make(chan int, 1)
				Send(ch, 0)
				gate := make(chan int)
				Go(func() { Recv(gate); Send(ch, 1) })
				Go(func() { Recv(gate); Send(ch, 2) })
				Send(gate, 0)
				Send(gate, 0)
				got = append(got, Recv(ch), Recv(ch), Recv(ch))
			}}, func(*Exec) (string, string) {
				return "", fmt.Sprint(got)
			}
	})
	if st.Violation != nil || strings.Join(ends, " ") != "[0 1 2] [0 2 1]" {
		t.Fatalf("end states %v violation %+v", ends, st.Violation)
	}
}

// a sender that never finds room is a leaked goroutine, and a closed buffered channel still delivers what it holds
func TestBufferedLeakAndClose(t *testing.T) {
	st, _ := exploreAll(t, "leak", func() ([]func(), func(*Exec) (string, string)) {
		return []func(){func() {
				ch := make(chan int, 1)
				Go(func() { Send(ch, 1); Send(ch, 2) })
			}}, func(*Exec) (string, string) {
				return "", ""
			}
	})
	if st.Violation == nil || !strings.Contains(st.Violation.Msg, "goroutine leak") {
		t.Fatalf("leak not reported: %+v", st.Violation)
	}
	st, ends := exploreAll(t, "drain", func() ([]func(), func(*Exec) (string, string)) {
		var got []string
		return []func(){func() {
				ch := make(chan int, 2)
				Send(ch, 7)
				Send(ch, 8)
				Close(ch)
				for i := 0; i < 3; i++ {
					v, ok := Recv2(ch)
					got = append(got, fmt.Sprint(v, ok))
				}
			}}, func(*Exec) (string, string) {
				return "", strings.Join(got, ",")
			}
	})
	if st.Violation != nil || len(ends) != 1 || ends[0] != "7 true,8 true,0 false" {
		t.Fatalf("end states %v violation %+v", ends, st.Violation)
	}
}
