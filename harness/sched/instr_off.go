//go:build !verifsched

package sched

// Instrumented reports whether the /repo sources were built through the instrumenter.
const Instrumented = false
