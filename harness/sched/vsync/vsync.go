// Package vsync replaces package sync in the instrumented copies of /repo files: the same
// API, but every operation is a scheduling point of engine S during an exploration.
package vsync

import (
	"sync"

	"verif/sched"
)

type Mutex struct {
	real sync.Mutex
	st   *sched.MutexState
}

func (m *Mutex) state() *sched.MutexState {
	if m.st == nil {
		m.st = sched.NewMutexState()
	}
	return m.st
}

func (m *Mutex) Lock() {
	if sched.Killed() {
		return
	}
	if !sched.MutexOp(m.state(), "lock") {
		m.real.Lock()
	}
}

func (m *Mutex) Unlock() {
	if sched.Killed() {
		return
	}
	if !sched.MutexOp(m.state(), "unlock") {
		m.real.Unlock()
	}
}

func (m *Mutex) TryLock() bool { panic("vsync: TryLock is not modelled") }

type RWMutex struct {
	real sync.RWMutex
	st   *sched.MutexState
}

func (m *RWMutex) state() *sched.MutexState {
	if m.st == nil {
		m.st = sched.NewMutexState()
	}
	return m.st
}

func (m *RWMutex) Lock() {
	if sched.Killed() {
		return
	}
	if !sched.MutexOp(m.state(), "lock") {
		m.real.Lock()
	}
}
func (m *RWMutex) Unlock() {
	if sched.Killed() {
		return
	}
	if !sched.MutexOp(m.state(), "unlock") {
		m.real.Unlock()
	}
}
func (m *RWMutex) RLock() {
	if sched.Killed() {
		return
	}
	if !sched.MutexOp(m.state(), "rlock") {
		m.real.RLock()
	}
}
func (m *RWMutex) RUnlock() {
	if sched.Killed() {
		return
	}
	if !sched.MutexOp(m.state(), "runlock") {
		m.real.RUnlock()
	}
}

type WaitGroup struct {
	real sync.WaitGroup
	st   sched.WGState
}

func (w *WaitGroup) Add(n int) {
	if sched.Killed() {
		return
	}
	if !sched.WGOp(&w.st, n, false) {
		w.real.Add(n)
	}
}
func (w *WaitGroup) Done() { w.Add(-1) }
func (w *WaitGroup) Wait() {
	if sched.Killed() {
		return
	}
	if !sched.WGOp(&w.st, 0, true) {
		w.real.Wait()
	}
}

// Once runs f at most once; concurrent callers wait for the first call to finish.
type Once struct {
	m    Mutex
	done bool
}

func (o *Once) Do(f func()) {
	o.m.Lock()
	defer o.m.Unlock()
	if !o.done {
		defer func() { o.done = true }()
		f()
	}
}

// Locker mirrors sync.Locker.
type Locker = sync.Locker

// Pool mirrors sync.Pool. Under the scheduler it is a deterministic LIFO (the interesting
// behaviour: an item put back is handed to the next Get) and Get/Put are scheduling points;
// outside an exploration it is the real pool.
type Pool struct {
	New   func() any
	real  sync.Pool
	m     Mutex
	items []any
	epoch int64
}

func (p *Pool) fresh() {
	if e := sched.Epoch(); e != p.epoch {
		p.epoch, p.items = e, nil
	}
}

func (p *Pool) Get() any {
	if !sched.Active() || sched.Killed() {
		p.real.New = p.New
		return p.real.Get()
	}
	p.m.Lock()
	defer p.m.Unlock()
	p.fresh()
	if n := len(p.items); n > 0 {
		x := p.items[n-1]
		p.items = p.items[:n-1]
		return x
	}
	if p.New != nil {
		return p.New()
	}
	return nil
}

func (p *Pool) Put(x any) {
	if !sched.Active() || sched.Killed() {
		p.real.Put(x)
		return
	}
	p.m.Lock()
	p.fresh()
	p.items = append(p.items, x)
	p.m.Unlock()
}

// Map mirrors sync.Map: a mutex-guarded map whose operations are scheduling points.
type Map struct {
	m     Mutex
	d     map[any]any
	epoch int64
}

// fresh drops the contents when a new execution has begun (called with the lock held).
func (m *Map) fresh() {
	if e := sched.Epoch(); e != m.epoch {
		m.epoch, m.d = e, nil
	}
}

func (m *Map) Load(k any) (any, bool) {
	m.m.Lock()
	defer m.m.Unlock()
	m.fresh()
	v, ok := m.d[k]
	return v, ok
}

func (m *Map) Store(k, v any) {
	m.m.Lock()
	defer m.m.Unlock()
	m.fresh()
	if m.d == nil {
		m.d = map[any]any{}
	}
	m.d[k] = v
}

func (m *Map) LoadOrStore(k, v any) (any, bool) {
	m.m.Lock()
	defer m.m.Unlock()
	m.fresh()
	if m.d == nil {
		m.d = map[any]any{}
	}
	if old, ok := m.d[k]; ok {
		return old, true
	}
	m.d[k] = v
	return v, false
}

func (m *Map) LoadAndDelete(k any) (any, bool) {
	m.m.Lock()
	defer m.m.Unlock()
	m.fresh()
	v, ok := m.d[k]
	delete(m.d, k)
	return v, ok
}

func (m *Map) Delete(k any) {
	m.m.Lock()
	defer m.m.Unlock()
	m.fresh()
	delete(m.d, k)
}

func (m *Map) Range(f func(k, v any) bool) {
	m.m.Lock()
	m.fresh()
	keys := make([]any, 0, len(m.d))
	for k := range m.d {
		keys = append(keys, k)
	}
	m.m.Unlock()
	for _, k := range keys {
		if v, ok := m.Load(k); ok && !f(k, v) {
			return
		}
	}
}

// Cond mirrors sync.Cond. Under the scheduler waiters queue in arrival order; a waiter that is
// never signalled stays blocked, which the explorer reports as a deadlock / leaked goroutine.
type Cond struct {
	L    Locker
	once sync.Once
	real *sync.Cond
	st   sched.CondState
}

func NewCond(l Locker) *Cond { return &Cond{L: l} }

func (c *Cond) fallback() *sync.Cond {
	c.once.Do(func() { c.real = sync.NewCond(c.L) })
	return c.real
}

func (c *Cond) Wait() {
	if sched.Killed() {
		return
	}
	ticket, ok := sched.CondEnqueue(&c.st)
	if !ok {
		c.fallback().Wait()
		return
	}
	c.L.Unlock()
	sched.CondWait(&c.st, ticket)
	c.L.Lock()
}

func (c *Cond) Signal() {
	if sched.Killed() {
		return
	}
	if !sched.CondSignal(&c.st, false) {
		c.fallback().Signal()
	}
}

func (c *Cond) Broadcast() {
	if sched.Killed() {
		return
	}
	if !sched.CondSignal(&c.st, true) {
		c.fallback().Broadcast()
	}
}
