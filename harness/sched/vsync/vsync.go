// Package vsync replaces package sync in the instrumented copies of /repo files: the same
// API, but every operation is a scheduling point of engine S during an exploration.
package vsync

import (
	"sync"

	"verif/sched"
)

type Mutex struct {
	real sync.Mutex
	st   *sched.MutexState
}

func (m *Mutex) state() *sched.MutexState {
	if m.st == nil {
		m.st = sched.NewMutexState()
	}
	return m.st
}

func (m *Mutex) Lock() {
	if sched.Killed() {
		return
	}
	if !sched.MutexOp(m.state(), "lock") {
		m.real.Lock()
	}
}

func (m *Mutex) Unlock() {
	if sched.Killed() {
		return
	}
	if !sched.MutexOp(m.state(), "unlock") {
		m.real.Unlock()
	}
}

func (m *Mutex) TryLock() bool { panic("vsync: TryLock is not modelled") }

type RWMutex struct {
	real sync.RWMutex
	st   *sched.MutexState
}

func (m *RWMutex) state() *sched.MutexState {
	if m.st == nil {
		m.st = sched.NewMutexState()
	}
	return m.st
}

func (m *RWMutex) Lock() {
	if sched.Killed() {
		return
	}
	if !sched.MutexOp(m.state(), "lock") {
		m.real.Lock()
	}
}
func (m *RWMutex) Unlock() {
	if sched.Killed() {
		return
	}
	if !sched.MutexOp(m.state(), "unlock") {
		m.real.Unlock()
	}
}
func (m *RWMutex) RLock() {
	if sched.Killed() {
		return
	}
	if !sched.MutexOp(m.state(), "rlock") {
		m.real.RLock()
	}
}
func (m *RWMutex) RUnlock() {
	if sched.Killed() {
		return
	}
	if !sched.MutexOp(m.state(), "runlock") {
		m.real.RUnlock()
	}
}

type WaitGroup struct {
	real sync.WaitGroup
	st   sched.WGState
}

func (w *WaitGroup) Add(n int) {
	if sched.Killed() {
		return
	}
	if !sched.WGOp(&w.st, n, false) {
		w.real.Add(n)
	}
}
func (w *WaitGroup) Done() { w.Add(-1) }
func (w *WaitGroup) Wait() {
	if sched.Killed() {
		return
	}
	if !sched.WGOp(&w.st, 0, true) {
		w.real.Wait()
	}
}

// Once runs f at most once; concurrent callers wait for the first call to finish.
type Once struct {
	m    Mutex
	done bool
}

func (o *Once) Do(f func()) {
	o.m.Lock()
	defer o.m.Unlock()
	if !o.done {
		defer func() { o.done = true }()
		f()
	}
}

// Locker mirrors sync.Locker.
type Locker = sync.Locker
